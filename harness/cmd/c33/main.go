// C33 harness: random UnixFS trees (basic / HAMT / auto-converting directories at any depth, built with
// the real boxo directory code), every existing path and mutated non-existing ones through the real
// path resolver (ResolveToLastNode / ResolvePath / ResolvePathComponents).
//
// Op lines of one case:
//
//	mode remote <fill>  (optional, before build) every resolve of this case runs over a FRESH local blockstore
//	                  holding a <fill>/4 pseudo-random part of the blocks, backed by an exchange that serves the
//	                  rest from the store the tree was built in and — like bitswap or any network client —
//	                  refuses a context that is already done                                   -> "ok"
//	build <spec>      recipe; exec builds the DAG with boxo's directory/HAMT/importer code   -> "ok"
//	tree <dump>       block-level dump of the built DAG made by gen (same code, same recipe); exec dumps
//	                  its own DAG, requires equality and answers "wf=true nodes=<n>"; the Lean driver
//	                  parses the dump, evaluates wfTree (the hypothesis of the theorems) and counts nodes
//	rtl|rp|rpc <seghex>:<murmur3hex> ...    resolve below the root
package main

import (
	"bytes"
	"context"
	"errors"
	"fmt"
	"os"
	"sort"
	"strconv"
	"strings"

	"github.com/ipfs/boxo/blockservice"
	"github.com/ipfs/boxo/blockstore"
	"github.com/ipfs/boxo/exchange"
	"github.com/ipfs/boxo/exchange/offline"
	bsfetcher "github.com/ipfs/boxo/fetcher/impl/blockservice"
	chunker "github.com/ipfs/boxo/chunker"
	"github.com/ipfs/boxo/ipld/merkledag"
	ft "github.com/ipfs/boxo/ipld/unixfs"
	"github.com/ipfs/boxo/ipld/unixfs/hamt"
	"github.com/ipfs/boxo/ipld/unixfs/importer"
	uio "github.com/ipfs/boxo/ipld/unixfs/io"
	"github.com/ipfs/boxo/path"
	"github.com/ipfs/boxo/path/resolver"
	"github.com/ipfs/boxo/retrieval"
	blocks "github.com/ipfs/go-block-format"
	"github.com/ipfs/go-cid"
	"github.com/ipfs/go-datastore"
	dssync "github.com/ipfs/go-datastore/sync"
	ipld "github.com/ipfs/go-ipld-format"
	"github.com/ipfs/go-unixfsnode"
	dagpb "github.com/ipld/go-codec-dagpb"
	"github.com/ipld/go-ipld-prime/codec/dagcbor"
	"github.com/ipld/go-ipld-prime/datamodel"
	"github.com/ipld/go-ipld-prime/fluent/qp"
	cidlink "github.com/ipld/go-ipld-prime/linking/cid"
	basicnode "github.com/ipld/go-ipld-prime/node/basic"
	mh "github.com/multiformats/go-multihash"
	"github.com/spaolacci/murmur3"

	"verifharness/vh"
)

// ---------------------------------------------------------------- recipe

type spec struct {
	kind   byte // F file, S symlink, D basic dir, H hamt dir (directory API), X hamt shard API (any power of two), Y dynamic dir (WithMaxLinks)
	size   int  // F: bytes ; Y: maxLinks
	flavor int  // F: 0 raw leaf, 1 dag-pb single node, 2 chunked by importer
	width  int
	ghosts int // H/X/Y: entries added first and removed at the end
	names  []string
	kids   []*spec
}

func (s *spec) tokens(out *[]string) {
	switch s.kind {
	case 'F':
		*out = append(*out, "F", strconv.Itoa(s.flavor), strconv.Itoa(s.size))
	case 'S':
		*out = append(*out, "S", strconv.Itoa(s.size))
	default:
		*out = append(*out, string(s.kind), strconv.Itoa(s.width), strconv.Itoa(s.size), strconv.Itoa(s.ghosts), strconv.Itoa(len(s.kids)))
		for i, k := range s.kids {
			*out = append(*out, vh.Hex([]byte(s.names[i])))
			k.tokens(out)
		}
	}
}

func parseSpec(ts []string) (*spec, []string) {
	switch ts[0] {
	case "F":
		return &spec{kind: 'F', flavor: vh.Atoi(ts[1]), size: vh.Atoi(ts[2])}, ts[3:]
	case "S":
		return &spec{kind: 'S', size: vh.Atoi(ts[1])}, ts[2:]
	}
	s := &spec{kind: ts[0][0], width: vh.Atoi(ts[1]), size: vh.Atoi(ts[2]), ghosts: vh.Atoi(ts[3])}
	n := vh.Atoi(ts[4])
	ts = ts[5:]
	for i := 0; i < n; i++ {
		s.names = append(s.names, string(vh.UnHex(ts[0])))
		var k *spec
		k, ts = parseSpec(ts[1:])
		s.kids = append(s.kids, k)
	}
	return s, ts
}

// logical tree kept by the harness for the monitor (names only; no hashes, no block layout)
type lnode struct {
	cid  cid.Cid
	kind byte // F S D
	kids map[string]*lnode
	// a HAMT shard root without any link: boxo writes it without the bitfield field and
	// go-unixfsnode refuses to load it (known finding empty-hamt-unreadable)
	emptyHamt bool
}

type world struct {
	ctx  context.Context
	bs   blockstore.Blockstore
	dag  ipld.DAGService
	res  resolver.Resolver
	uniq int
	// remote mode: fill in 0..3 = quarter of the blocks pre-seeded into each fresh local store; -1 = off
	fill  int
	nonce uint64
}

// remoteExchange serves blocks out of the store the tree was built in. Like a network client it gives up
// when the caller's context is done.
type remoteExchange struct {
	remote  blockstore.Blockstore
	fetched int
}

var _ exchange.Interface = (*remoteExchange)(nil)

func (e *remoteExchange) GetBlock(ctx context.Context, c cid.Cid) (blocks.Block, error) {
	if err := ctx.Err(); err != nil {
		return nil, err
	}
	e.fetched++
	return e.remote.Get(ctx, c)
}

func (e *remoteExchange) GetBlocks(ctx context.Context, cs []cid.Cid) (<-chan blocks.Block, error) {
	if err := ctx.Err(); err != nil {
		return nil, err
	}
	out := make(chan blocks.Block, len(cs))
	for _, c := range cs {
		if b, err := e.remote.Get(ctx, c); err == nil {
			e.fetched++
			out <- b
		}
	}
	close(out)
	return out, nil
}

func (e *remoteExchange) NotifyNewBlocks(context.Context, ...blocks.Block) error { return nil }
func (e *remoteExchange) Close() error                                          { return nil }

func resolverOver(bsrv blockservice.BlockService) resolver.Resolver {
	fc := bsfetcher.NewFetcherConfig(bsrv)
	fc.PrototypeChooser = dagpb.AddSupportToChooser(bsfetcher.DefaultPrototypeChooser)
	return resolver.NewBasicResolver(fc.WithReifier(unixfsnode.Reify))
}

// resolverFor returns the resolver for the next resolve op: the shared offline one, or (remote mode) one
// over a fresh, partially filled local blockstore + the cancellation-honouring exchange.
func (w *world) resolverFor() (resolver.Resolver, *remoteExchange) {
	if w.fill < 0 {
		return w.res, nil
	}
	w.nonce++
	local := blockstore.NewBlockstore(dssync.MutexWrap(datastore.NewMapDatastore()))
	if w.fill > 0 {
		ch, err := w.bs.AllKeysChan(w.ctx)
		if err != nil {
			panic(err)
		}
		var keys []cid.Cid
		for c := range ch {
			keys = append(keys, c)
		}
		sort.Slice(keys, func(i, j int) bool { return keys[i].KeyString() < keys[j].KeyString() })
		r := vh.NewRand(w.nonce*0x9E37 + uint64(len(keys)))
		for _, c := range keys {
			if r.Intn(4) < w.fill {
				b, err := w.bs.Get(w.ctx, c)
				if err != nil {
					panic(err)
				}
				if err := local.Put(w.ctx, b); err != nil {
					panic(err)
				}
			}
		}
	}
	ex := &remoteExchange{remote: w.bs}
	return resolverOver(blockservice.New(local, ex)), ex
}

func newWorld() *world {
	bs := blockstore.NewBlockstore(dssync.MutexWrap(datastore.NewMapDatastore()))
	bsrv := blockservice.New(bs, offline.Exchange(bs))
	return &world{ctx: context.Background(), bs: bs, dag: merkledag.NewDAGService(bsrv), res: resolverOver(bsrv), fill: -1}
}

func (w *world) build(s *spec) (ipld.Node, *lnode, error) {
	w.uniq++
	switch s.kind {
	case 'F':
		data := make([]byte, s.size)
		for i := range data {
			data[i] = byte(i*7 + w.uniq*13 + s.size)
		}
		var nd ipld.Node
		switch s.flavor {
		case 0:
			nd = merkledag.NewRawNode(data)
			if err := w.dag.Add(w.ctx, nd); err != nil {
				return nil, nil, err
			}
		case 1:
			nd = merkledag.NodeWithData(ft.FilePBData(data, uint64(len(data))))
			if err := w.dag.Add(w.ctx, nd); err != nil {
				return nil, nil, err
			}
		default:
			var err error
			nd, err = importer.BuildDagFromReader(w.dag, chunker.NewSizeSplitter(bytes.NewReader(data), 16))
			if err != nil {
				return nil, nil, err
			}
		}
		return nd, &lnode{cid: nd.Cid(), kind: 'F'}, nil
	case 'S':
		d, err := ft.SymlinkData(fmt.Sprintf("target-%d-%d", s.size, w.uniq))
		if err != nil {
			return nil, nil, err
		}
		nd := merkledag.NodeWithData(d)
		if err := w.dag.Add(w.ctx, nd); err != nil {
			return nil, nil, err
		}
		return nd, &lnode{cid: nd.Cid(), kind: 'S'}, nil
	}
	ln := &lnode{kind: 'D', kids: map[string]*lnode{}}
	type adder interface {
		AddChild(context.Context, string, ipld.Node) error
		RemoveChild(context.Context, string) error
		GetNode() (ipld.Node, error)
	}
	var dir adder
	var shard *hamt.Shard
	var err error
	switch s.kind {
	case 'D':
		dir, err = uio.NewBasicDirectory(w.dag)
	case 'H':
		dir, err = uio.NewHAMTDirectory(w.dag, 0, uio.WithMaxHAMTFanout(s.width))
	case 'Y':
		dir, err = uio.NewDirectory(w.dag, uio.WithMaxLinks(s.size), uio.WithMaxHAMTFanout(s.width))
	case 'X':
		shard, err = hamt.NewShard(w.dag, s.width)
	default:
		err = fmt.Errorf("bad kind %c", s.kind)
	}
	if err != nil {
		return nil, nil, err
	}
	ghost := merkledag.NodeWithData(ft.FilePBData([]byte("ghost"), 5))
	if err := w.dag.Add(w.ctx, ghost); err != nil {
		return nil, nil, err
	}
	add := func(name string, nd ipld.Node) error {
		if shard != nil {
			return shard.Set(w.ctx, name, nd)
		}
		return dir.AddChild(w.ctx, name, nd)
	}
	gname := func(i int) string { return fmt.Sprintf("\x01ghost-%d", i) }
	gi := 0
	for i, k := range s.kids {
		// interleave ghosts with real entries
		for gi < s.ghosts && gi*max(len(s.kids), 1) <= i*s.ghosts {
			if err := add(gname(gi), ghost); err != nil {
				return nil, nil, err
			}
			gi++
		}
		knd, kl, err := w.build(k)
		if err != nil {
			return nil, nil, err
		}
		if err := add(s.names[i], knd); err != nil {
			return nil, nil, err
		}
		ln.kids[s.names[i]] = kl
	}
	for ; gi < s.ghosts; gi++ {
		if err := add(gname(gi), ghost); err != nil {
			return nil, nil, err
		}
	}
	for i := 0; i < s.ghosts; i++ {
		if shard != nil {
			err = shard.Remove(w.ctx, gname(i))
		} else {
			err = dir.RemoveChild(w.ctx, gname(i))
		}
		if err != nil {
			return nil, nil, err
		}
	}
	var nd ipld.Node
	if shard != nil {
		nd, err = shard.Node()
	} else {
		nd, err = dir.GetNode()
	}
	if err != nil {
		return nil, nil, err
	}
	if err := w.dag.Add(w.ctx, nd); err != nil {
		return nil, nil, err
	}
	ln.cid = nd.Cid()
	if pn, ok := nd.(*merkledag.ProtoNode); ok && len(pn.Links()) == 0 {
		if fsn, err := ft.FSNodeFromBytes(pn.Data()); err == nil && fsn.Type() == ft.THAMTShard {
			ln.emptyHamt = true
		}
	}
	return nd, ln, nil
}

// ---------------------------------------------------------------- non-UnixFS (dag-cbor) trees: the non-link terminal branch
//
// value ::= I <int> | M <n> (<namehex> value)^n | K value        (K = link to a NEW block holding value)

type cval struct {
	kind  byte
	n     int
	names []string
	kids  []*cval
	// filled by build
	blk cid.Cid // K: cid of the target block
}

func (v *cval) tokens(out *[]string) {
	switch v.kind {
	case 'I':
		*out = append(*out, "I", strconv.Itoa(v.n))
	case 'K':
		*out = append(*out, "K")
		v.kids[0].tokens(out)
	default:
		*out = append(*out, "M", strconv.Itoa(len(v.kids)))
		for i, k := range v.kids {
			*out = append(*out, vh.Hex([]byte(v.names[i])))
			k.tokens(out)
		}
	}
}

func parseCval(ts []string) (*cval, []string) {
	switch ts[0] {
	case "I":
		return &cval{kind: 'I', n: vh.Atoi(ts[1])}, ts[2:]
	case "K":
		k, r := parseCval(ts[1:])
		return &cval{kind: 'K', kids: []*cval{k}}, r
	}
	v := &cval{kind: 'M'}
	n := vh.Atoi(ts[1])
	ts = ts[2:]
	for i := 0; i < n; i++ {
		v.names = append(v.names, string(vh.UnHex(ts[0])))
		var k *cval
		k, ts = parseCval(ts[1:])
		v.kids = append(v.kids, k)
	}
	return v, ts
}

// storeBlock encodes the value as one dag-cbor block (nested K values become blocks of their own first)
func (w *world) storeBlock(v *cval) (cid.Cid, error) {
	nd, err := w.cnode(v)
	if err != nil {
		return cid.Undef, err
	}
	var buf bytes.Buffer
	if err := dagcbor.Encode(nd, &buf); err != nil {
		return cid.Undef, err
	}
	c, err := cid.Prefix{Version: 1, Codec: cid.DagCBOR, MhType: mh.SHA2_256, MhLength: -1}.Sum(buf.Bytes())
	if err != nil {
		return cid.Undef, err
	}
	b, err := blocks.NewBlockWithCid(buf.Bytes(), c)
	if err != nil {
		return cid.Undef, err
	}
	return c, w.bs.Put(w.ctx, b)
}

func (w *world) cnode(v *cval) (datamodel.Node, error) {
	switch v.kind {
	case 'I':
		return basicnode.NewInt(int64(v.n)), nil
	case 'K':
		c, err := w.storeBlock(v.kids[0])
		if err != nil {
			return nil, err
		}
		v.blk = c
		return basicnode.NewLink(cidlink.Link{Cid: c}), nil
	}
	var ferr error
	nd, err := qp.BuildMap(basicnode.Prototype.Map, int64(len(v.kids)), func(ma datamodel.MapAssembler) {
		for i, k := range v.kids {
			kn, err := w.cnode(k)
			if err != nil {
				ferr = err
				return
			}
			qp.MapEntry(ma, v.names[i], qp.Node(kn))
		}
	})
	if ferr != nil {
		return nil, ferr
	}
	return nd, err
}

func (v *cval) dump(out *[]string) {
	switch v.kind {
	case 'I':
		*out = append(*out, "I")
	case 'K':
		*out = append(*out, "K", v.blk.String())
		v.kids[0].dump(out)
	default:
		*out = append(*out, "M", strconv.Itoa(len(v.kids)))
		for i, k := range v.kids {
			*out = append(*out, vh.Hex([]byte(v.names[i])))
			k.dump(out)
		}
	}
}

// the property's reading of a path over such a tree: the CID of the last block entered and the segments
// walked inside it; ok=false when a segment does not exist
func cspec(v *cval, blk cid.Cid, segs []string) (cid.Cid, []string, bool) {
	var inBlock []string
	for i, s := range segs {
		if v.kind != 'M' {
			return cid.Undef, nil, false
		}
		var next *cval
		for j, nm := range v.names {
			if nm == s {
				next = v.kids[j]
				break
			}
		}
		if next == nil {
			return cid.Undef, nil, false
		}
		if next.kind == 'K' {
			blk, inBlock, v = next.blk, nil, next.kids[0]
			if i == len(segs)-1 {
				return blk, []string{}, true
			}
			continue
		}
		inBlock = append(inBlock, s)
		v = next
	}
	return blk, inBlock, true
}

func genCval(r *vh.Rand, depth int) *cval {
	if depth >= 5 || (depth > 0 && r.Chance(1, 4)) {
		return &cval{kind: 'I', n: r.Intn(1000)}
	}
	if depth > 0 && r.Chance(1, 3) {
		return &cval{kind: 'K', kids: []*cval{genCval(r, depth+1)}}
	}
	v := &cval{kind: 'M'}
	seen := map[string]bool{}
	for i, n := 0, r.Range(1, 4); i < n; i++ {
		nm := vh.Pick(r, []string{"a", "b", "c", "d", "x", "0", "1", "é", "k k"})
		if seen[nm] {
			continue
		}
		seen[nm] = true
		v.names = append(v.names, nm)
		v.kids = append(v.kids, genCval(r, depth+1))
	}
	return v
}

func cpaths(v *cval, prefix []string, out *[][]string) {
	for v.kind == 'K' { // a link is transparent for paths
		v = v.kids[0]
	}
	*out = append(*out, append([]string(nil), prefix...))
	if v.kind == 'M' {
		for i, k := range v.kids {
			cpaths(k, append(prefix, v.names[i]), out)
		}
	}
}

func genCborCase(cr *vh.Rand, id string) vh.Case {
	root := genCval(cr, 0)
	var st []string
	root.tokens(&st)
	w := newWorld()
	rc, err := w.storeBlock(root)
	if err != nil {
		panic(err)
	}
	dt := []string{rc.String()}
	root.dump(&dt)
	c := vh.Case{ID: id}
	c.Ops = append(c.Ops, "cbuild "+strings.Join(st, " "), "ctree "+strings.Join(dt, " "))
	var ps [][]string
	cpaths(root, nil, &ps)
	for _, p := range ps {
		c.Ops = append(c.Ops, opLine("crtl", p))
		if cr.Chance(1, 2) {
			q := append([]string(nil), p...)
			switch cr.Intn(3) {
			case 0:
				q = append(q, vh.Pick(cr, []string{"a", "zz", "0"}))
			case 1:
				q = append(q, "a", "b")
			default:
				if len(q) > 0 {
					q[cr.Intn(len(q))] = "nope"
				}
			}
			c.Ops = append(c.Ops, opLine("crtl", q))
		}
	}
	return c
}

// ---------------------------------------------------------------- block-level dump (uses merkledag decoding, not unixfsnode)

func hashOf(name string) []byte {
	h := murmur3.New64()
	h.Write([]byte(name))
	return h.Sum(nil)
}

func hexNat(b []byte) string {
	s := strings.TrimLeft(fmt.Sprintf("%x", b), "0")
	if s == "" {
		return "0"
	}
	return s
}

func (w *world) dump(c cid.Cid, out *[]string) error {
	if c.Prefix().Codec == cid.Raw {
		*out = append(*out, "f", c.String())
		return nil
	}
	nd, err := w.dag.Get(w.ctx, c)
	if err != nil {
		return err
	}
	pn, ok := nd.(*merkledag.ProtoNode)
	if !ok {
		return fmt.Errorf("not a protonode: %s", c)
	}
	fsn, err := ft.FSNodeFromBytes(pn.Data())
	if err != nil {
		return err
	}
	switch fsn.Type() {
	case ft.TFile, ft.TRaw:
		*out = append(*out, "f", c.String())
	case ft.TSymlink, ft.TMetadata:
		*out = append(*out, "s", c.String())
	case ft.TDirectory:
		*out = append(*out, "d", c.String(), strconv.Itoa(len(pn.Links())))
		for _, l := range pn.Links() {
			*out = append(*out, vh.Hex([]byte(l.Name)))
			if err := w.dump(l.Cid, out); err != nil {
				return err
			}
		}
	case ft.THAMTShard:
		*out = append(*out, "h", c.String(), strconv.FormatUint(fsn.Fanout(), 10), hexNat(fsn.Data()))
		return w.dumpShard(pn, fsn, out)
	default:
		return fmt.Errorf("unexpected unixfs type %v", fsn.Type())
	}
	return nil
}

func (w *world) dumpShard(pn *merkledag.ProtoNode, fsn *ft.FSNode, out *[]string) error {
	pad := len(fmt.Sprintf("%X", fsn.Fanout()-1))
	*out = append(*out, strconv.Itoa(len(pn.Links())))
	for _, l := range pn.Links() {
		if len(l.Name) == pad {
			ch, err := w.dag.Get(w.ctx, l.Cid)
			if err != nil {
				return err
			}
			cpn, ok := ch.(*merkledag.ProtoNode)
			if !ok {
				return fmt.Errorf("child shard is not a protonode")
			}
			cfsn, err := ft.FSNodeFromBytes(cpn.Data())
			if err != nil {
				return err
			}
			if cfsn.Type() != ft.THAMTShard {
				return fmt.Errorf("child shard has type %v", cfsn.Type())
			}
			*out = append(*out, "t", vh.Hex([]byte(l.Name)), strconv.FormatUint(cfsn.Fanout(), 10), hexNat(cfsn.Data()))
			if err := w.dumpShard(cpn, cfsn, out); err != nil {
				return err
			}
		} else {
			key := ""
			if len(l.Name) > pad {
				key = l.Name[pad:]
			}
			*out = append(*out, "v", vh.Hex([]byte(l.Name)), vh.Hex(hashOf(key)))
			if err := w.dump(l.Cid, out); err != nil {
				return err
			}
		}
	}
	return nil
}

func countNodes(l *lnode) int {
	n := 1
	for _, k := range l.kids {
		n += countNodes(k)
	}
	return n
}

// ---------------------------------------------------------------- generator

var alphabet = []string{"a", "b", "c", "d", "e", "x", "y", "z", "0", "1", "7", ".", "-", "_", " ", "%", "?", "#", "\\", "é", "日", "A", "B", ":", "+", "~"}

func randName(r *vh.Rand) string {
	for {
		n := r.Range(1, 6)
		if r.Chance(1, 12) {
			n = r.Range(7, 40)
		}
		var sb strings.Builder
		for i := 0; i < n; i++ {
			sb.WriteString(vh.Pick(r, alphabet))
		}
		s := sb.String()
		if s != "." && s != ".." {
			return s
		}
	}
}

var widths = []int{8, 8, 8, 16, 16, 32, 64, 256, 1024}
var xwidths = []int{8, 16, 128, 512}

func genSpec(r *vh.Rand, depth, maxDepth int, big *int) *spec {
	if depth >= maxDepth || (depth > 0 && r.Chance(2, 5)) {
		if r.Chance(1, 8) {
			return &spec{kind: 'S', size: r.Intn(100)}
		}
		return &spec{kind: 'F', flavor: r.Intn(3), size: r.Intn(70)}
	}
	s := &spec{}
	n := r.Intn(7)
	switch r.Intn(10) {
	case 0, 1, 2:
		s.kind = 'D'
	case 3, 4, 5, 6:
		s.kind, s.width = 'H', vh.Pick(r, widths)
	case 7:
		s.kind, s.width = 'X', vh.Pick(r, xwidths)
	default:
		s.kind, s.width, s.size = 'Y', vh.Pick(r, widths), r.Range(1, 12)
	}
	if s.kind != 'D' {
		s.ghosts = r.Intn(4) * r.Intn(6)
		if *big > 0 && r.Chance(1, 3) {
			*big--
			n = r.Range(20, 120)
			if r.Chance(1, 4) {
				n = r.Range(120, 400)
			}
		} else if r.Chance(1, 2) {
			n = r.Range(4, 30)
		}
	} else if r.Chance(1, 6) {
		n = r.Range(7, 60)
	}
	seen := map[string]bool{}
	for i := 0; i < n; i++ {
		nm := randName(r)
		if seen[nm] {
			continue
		}
		seen[nm] = true
		s.names = append(s.names, nm)
		var k *spec
		if n > 12 && !r.Chance(1, 10) { // wide directories: mostly leaves
			k = &spec{kind: 'F', flavor: r.Intn(2), size: r.Intn(20)}
		} else {
			k = genSpec(r, depth+1, maxDepth, big)
		}
		s.kids = append(s.kids, k)
	}
	return s
}

type pth struct {
	segs []string
}

func allPaths(s *spec, prefix []string, out *[]pth) {
	*out = append(*out, pth{segs: append([]string(nil), prefix...)})
	for i, k := range s.kids {
		allPaths(k, append(prefix, s.names[i]), out)
	}
}

func segTok(s string) string { return vh.Hex([]byte(s)) + ":" + vh.Hex(hashOf(s)) }

func opLine(op string, segs []string) string {
	ts := []string{op}
	for _, s := range segs {
		ts = append(ts, segTok(s))
	}
	return strings.Join(ts, " ")
}

func gen(r *vh.Rand, tier string, n int, emit func(vh.Case)) {
	for i := 0; i < n; i++ {
		cr := r.Fork()
		if cr.Chance(1, 10) {
			emit(genCborCase(cr, strconv.Itoa(i)))
			continue
		}
		maxDepth := cr.Range(1, 4)
		if tier == "thorough" {
			maxDepth = cr.Range(1, 6)
		}
		big := 1
		if cr.Chance(1, 3) {
			big = 2
		}
		root := genSpec(cr, 0, maxDepth, &big)
		if root.kind == 'F' || root.kind == 'S' { // keep roots directories most of the time
			root = &spec{kind: 'D', names: []string{"only"}, kids: []*spec{root}}
		}
		var st []string
		root.tokens(&st)
		w := newWorld()
		nd, _, err := w.build(root)
		if err != nil {
			panic(fmt.Sprintf("gen: build failed: %v", err))
		}
		var dt []string
		if err := w.dump(nd.Cid(), &dt); err != nil {
			panic(fmt.Sprintf("gen: dump failed: %v", err))
		}
		c := vh.Case{ID: strconv.Itoa(i)}
		if cr.Chance(1, 3) {
			// blocks come from a remote exchange that honours context cancellation
			c.Ops = append(c.Ops, fmt.Sprintf("mode remote %d", vh.Pick(cr, []int{0, 0, 1, 2, 3})))
		}
		c.Ops = append(c.Ops, "build "+strings.Join(st, " "), "tree "+strings.Join(dt, " "))
		var ps []pth
		allPaths(root, nil, &ps)
		// every existing path when the tree is small, a sample otherwise
		pick := ps
		if len(ps) > 40 {
			pick = nil
			for j := 0; j < 40; j++ {
				pick = append(pick, ps[cr.Intn(len(ps))])
			}
			pick = append(pick, ps[0])
		}
		var names []string
		for _, p := range ps {
			if len(p.segs) > 0 {
				names = append(names, p.segs[len(p.segs)-1])
			}
		}
		for _, p := range pick {
			c.Ops = append(c.Ops, opLine("rtl", p.segs))
			if cr.Chance(1, 2) {
				c.Ops = append(c.Ops, opLine("rp", p.segs))
			}
			if cr.Chance(1, 3) {
				c.Ops = append(c.Ops, opLine("rpc", p.segs))
			}
			// mutations
			for m, mm := 0, cr.Range(1, 2); m < mm; m++ {
				q := append([]string(nil), p.segs...)
				switch cr.Intn(6) {
				case 0: // extra segment(s) below the node
					q = append(q, randName(cr))
					if cr.Bool() {
						q = append(q, randName(cr))
					}
				case 1: // a name that exists elsewhere in the tree
					if len(names) > 0 {
						q = append(q, vh.Pick(cr, names))
					} else {
						q = append(q, "nope")
					}
				case 2: // replace one segment by a fresh name
					if len(q) > 0 {
						q[cr.Intn(len(q))] = randName(cr)
					} else {
						q = append(q, randName(cr))
					}
				case 3: // replace one segment by a near miss (prefix / suffix / case change)
					if len(q) > 0 {
						j := cr.Intn(len(q))
						switch cr.Intn(3) {
						case 0:
							q[j] = q[j] + "x"
						case 1:
							if len(q[j]) > 1 {
								q[j] = q[j][:len(q[j])-1]
							} else {
								q[j] = q[j] + q[j]
							}
						default:
							q[j] = strings.ToUpper(q[j]) + "'"
						}
					} else {
						q = append(q, "x")
					}
				case 4: // a HAMT-looking name: hex prefix as the pad of a shard link
					q = append(q, vh.Pick(cr, []string{"00", "0", "A", "0A", "1F", "FF", "000", "3FF"}))
				default: // replace one segment by a name existing elsewhere, keep the tail
					if len(q) > 0 && len(names) > 0 {
						q[cr.Intn(len(q))] = vh.Pick(cr, names)
					} else {
						q = append(q, "y")
					}
				}
				for k := range q {
					if q[k] == "" || q[k] == "." || q[k] == ".." || strings.Contains(q[k], "/") {
						q[k] = "fixed"
					}
				}
				c.Ops = append(c.Ops, opLine(vh.Pick(cr, []string{"rtl", "rtl", "rtl", "rp", "rpc"}), q))
			}
		}
		emit(c)
	}
}

// ---------------------------------------------------------------- exec

func parseSegs(ts []string) []string {
	var segs []string
	for _, t := range ts {
		segs = append(segs, string(vh.UnHex(strings.SplitN(t, ":", 2)[0])))
	}
	return segs
}

// walk the logical tree by names: (node reached, index of first failing segment or -1, kind of the node
// the failure happened in, nodes visited)
func follow(l *lnode, segs []string) (*lnode, int, byte, []*lnode) {
	cur := l
	visited := []*lnode{l}
	for i, s := range segs {
		k, ok := cur.kids[s]
		if !ok {
			return nil, i, cur.kind, visited
		}
		cur = k
		visited = append(visited, k)
	}
	return cur, -1, 0, visited
}

// sig of a monitor failure: the specific known defect when a block the resolver must load is an empty HAMT
func sigFor(base string, mustLoad []*lnode) string {
	for _, l := range mustLoad {
		if l.emptyHamt {
			return "empty-hamt-unreadable"
		}
	}
	return base
}

func exec(c vh.Case, o *vh.Out) {
	var w *world
	var root *lnode
	var rootCid cid.Cid
	var croot *cval
	fill := -1
	for _, line := range c.Ops {
		f := strings.Fields(line)
		switch f[0] {
		case "mode":
			if len(f) == 3 && f[1] == "remote" {
				fill = vh.Atoi(f[2])
				o.Kind("remote-exchange")
				o.Kind("remote-fill-" + f[2])
			}
			o.Emit("ok")
		case "cbuild":
			w = newWorld()
			croot, _ = parseCval(f[1:])
			rc, err := w.storeBlock(croot)
			if err != nil {
				o.Emit("build-error")
				o.Fail("build-error", "%v", err)
				continue
			}
			rootCid = rc
			o.Kind("dag-cbor")
			o.Emit("ok")
		case "ctree":
			dt := []string{rootCid.String()}
			croot.dump(&dt)
			if strings.Join(dt, " ") != strings.Join(f[1:], " ") {
				o.Emit("dump-mismatch")
				continue
			}
			o.Emit("ok")
		case "crtl":
			segs := parseSegs(f[1:])
			p, err := path.NewPathFromSegments(append([]string{"ipld", rootCid.String()}, segs...)...)
			if err != nil {
				o.Emit("bad-path")
				continue
			}
			ip, err := path.NewImmutablePath(p)
			if err != nil {
				o.Emit("bad-path")
				continue
			}
			rc, rem, err := w.res.ResolveToLastNode(w.ctx, ip)
			var nl *resolver.ErrNoLink
			switch {
			case err == nil:
				o.Kind(fmt.Sprintf("crtl-ok-rem%d", min(len(rem), 3)))
				hs := make([]string, len(rem))
				for i, s := range rem {
					hs[i] = vh.Hex([]byte(s))
				}
				o.Emit("ok %s rem=%s", rc, strings.Join(hs, "/"))
			case errors.As(err, &nl):
				o.Kind("crtl-nolink")
				o.Emit("nolink %s", vh.Hex([]byte(nl.Name)))
			default:
				o.Kind("crtl-err")
				o.Emit("err")
			}
			wc, wrem, ok := cspec(croot, rootCid, segs)
			if ok {
				if err != nil {
					o.Fail("ipld-existing-path-error", "path %q: %v", segs, err)
				} else if !rc.Equals(wc) || strings.Join(rem, "/") != strings.Join(wrem, "/") {
					o.Fail("ipld-wrong-block-or-remainder", "path %q: got %s %q want %s %q", segs, rc, rem, wc, wrem)
				} else if len(wrem) > 0 {
					o.Nontrivial()
				}
			} else if err == nil {
				o.Fail("ipld-missing-path-resolved", "path %q resolved to %s %q", segs, rc, rem)
			}
		case "build":
			w = newWorld()
			w.fill = fill
			s, _ := parseSpec(f[1:])
			nd, ln, err := w.build(s)
			if err != nil {
				o.Emit("build-error")
				o.Fail("build-error", "%v", err)
				continue
			}
			root, rootCid = ln, nd.Cid()
			var kinds func(s *spec, d int)
			maxd := 0
			kinds = func(s *spec, d int) {
				if d > maxd {
					maxd = d
				}
				switch s.kind {
				case 'H', 'X', 'Y':
					o.Kind(fmt.Sprintf("dir-%c", s.kind))
					o.Kind(fmt.Sprintf("width-%d", s.width))
					if len(s.kids) >= 100 {
						o.Kind("entries>=100")
					}
					if s.ghosts > 0 {
						o.Kind("removals")
					}
				case 'D':
					o.Kind("dir-D")
				}
				for _, k := range s.kids {
					kinds(k, d+1)
				}
			}
			kinds(s, 0)
			o.Kind(fmt.Sprintf("depth%d", maxd))
			o.Emit("ok")
		case "tree":
			var dt []string
			if err := w.dump(rootCid, &dt); err != nil {
				o.Emit("dump-error")
				o.Fail("dump-error", "%v", err)
				continue
			}
			if strings.Join(dt, " ") != strings.Join(f[1:], " ") {
				o.Emit("dump-mismatch")
				continue
			}
			hasSub, hasH := false, false
			for _, t := range dt {
				if t == "t" {
					hasSub = true
				}
				if t == "h" {
					hasH = true
				}
			}
			if hasH {
				o.Kind("hamt-root-shard")
			}
			if hasSub {
				o.Kind("hamt-child-shards")
				o.Nontrivial()
			}
			o.Emit("wf=true nodes=%d", countNodes(root))
		case "rtl", "rp", "rpc":
			segs := parseSegs(f[1:])
			p, err := path.NewPathFromSegments(append([]string{"ipfs", rootCid.String()}, segs...)...)
			if err != nil {
				o.Emit("bad-path")
				continue
			}
			ip, err := path.NewImmutablePath(p)
			if err != nil {
				o.Emit("bad-path")
				continue
			}
			if got := ip.Segments()[2:]; strings.Join(got, "/") != strings.Join(segs, "/") {
				o.Emit("bad-path")
				continue
			}
			want, missAt, missKind, visited := follow(root, segs)
			mustLoad := visited
			if f[0] == "rtl" && want != nil { // the target of the last link is not loaded
				mustLoad = visited[:len(visited)-1]
			}
			for _, l := range mustLoad {
				if l.emptyHamt {
					o.Kind("loads-empty-hamt")
				}
			}
			fail := func(sig, format string, a ...any) { o.Fail(sigFor(sig, mustLoad), format, a...) }
			res, ex := w.resolverFor()
			defer func(ex *remoteExchange) {
				if ex != nil && ex.fetched > 0 {
					o.Kind("blocks-fetched-remotely")
				}
			}(ex)
			switch f[0] {
			case "rtl":
				// every other call carries a retrieval.State: the resolver must record root and terminal CID
				rctx, rstate := w.ctx, (*retrieval.State)(nil)
				if len(segs)%2 == 1 {
					rctx, rstate = retrieval.ContextWithState(w.ctx)
				}
				rc, rem, err := res.ResolveToLastNode(rctx, ip)
				if rstate != nil {
					o.Kind("with-retrieval-state")
					if !rstate.GetRootCID().Equals(rootCid) {
						fail("retrieval-state-root", "path %q: recorded root %s", segs, rstate.GetRootCID())
					}
					if err == nil && !rstate.GetTerminalCID().Equals(rc) {
						fail("retrieval-state-terminal", "path %q: recorded terminal %s, returned %s", segs, rstate.GetTerminalCID(), rc)
					}
				}
				var nl *resolver.ErrNoLink
				switch {
				case err == nil:
					o.Kind("rtl-ok")
					o.Emit("ok %s rem=%d", rc, len(rem))
				case errors.As(err, &nl):
					o.Kind("rtl-nolink")
					o.Emit("nolink %s", vh.Hex([]byte(nl.Name)))
				default:
					o.Kind("rtl-err")
					o.Emit("err")
				}
				// monitor: the property's own statement over the logical tree
				if want != nil {
					if err != nil {
						fail("existing-path-error", "path %q: %v", segs, err)
					} else if !rc.Equals(want.cid) || len(rem) != 0 {
						fail("existing-path-wrong-result", "path %q: got %s rem=%v want %s", segs, rc, rem, want.cid)
					}
				} else if missKind == 'D' || missKind == 'S' {
					if err == nil {
						fail("missing-name-resolved", "path %q resolved to %s", segs, rc)
					} else if !errors.As(err, &nl) {
						fail("missing-name-not-nolink", "path %q: %v", segs, err)
					} else if nl.Name != segs[missAt] {
						fail("missing-name-wrong-segment", "path %q: ErrNoLink names %q, first missing is %q", segs, nl.Name, segs[missAt])
					} else if !errors.Is(err, &resolver.ErrNoLink{}) || !strings.Contains(err.Error(), strconv.Quote(segs[missAt])) {
						fail("nolink-error-text", "path %q: errors.Is / message %q do not identify the missing segment", segs, err.Error())
					}
				} else if err == nil { // below a file
					fail("below-file-resolved", "path %q resolved to %s", segs, rc)
				}
			case "rp":
				_, lnk, err := res.ResolvePath(w.ctx, ip)
				if err == nil {
					o.Kind("rp-ok")
					o.Emit("ok %s", lnk.String())
				} else {
					o.Kind("rp-err")
					o.Emit("err")
				}
				if want != nil {
					if err != nil {
						fail("rp-existing-path-error", "path %q: %v", segs, err)
					} else if lnk.String() != want.cid.String() {
						fail("rp-existing-path-wrong-result", "path %q: got %s want %s", segs, lnk, want.cid)
					}
				} else if err == nil {
					fail("rp-missing-name-resolved", "path %q resolved to %s", segs, lnk)
				}
			case "rpc":
				nodes, err := res.ResolvePathComponents(w.ctx, ip)
				if err != nil {
					o.Kind("rpc-err")
					o.Emit("err")
				} else {
					o.Kind("rpc-ok")
					o.Emit("n=%d", len(nodes))
				}
				if want != nil && (err != nil || len(nodes) != len(segs)+1) {
					fail("rpc-existing-path-short", "path %q: %d nodes, err=%v", segs, len(nodes), err)
				}
				if want == nil && err == nil && len(nodes) != missAt+1 {
					fail("rpc-missing-wrong-count", "path %q: %d nodes, first missing segment index %d", segs, len(nodes), missAt)
				}
			}
		default:
			o.Emit("bad-op")
		}
	}
}


func main() {
	// helper for writing corpus files by hand: `hx dumpspec <spec tokens>` prints the build and tree lines
	if len(os.Args) > 2 && os.Args[1] == "dumpspec" {
		s, _ := parseSpec(os.Args[2:])
		w := newWorld()
		nd, _, err := w.build(s)
		if err != nil {
			panic(err)
		}
		var dt []string
		if err := w.dump(nd.Cid(), &dt); err != nil {
			panic(err)
		}
		fmt.Println("build " + strings.Join(os.Args[2:], " "))
		fmt.Println("tree " + strings.Join(dt, " "))
		return
	}
	vh.Main(vh.Config{Gen: gen, Exec: exec})
}
