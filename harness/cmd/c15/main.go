// C15 harness: UnixFS directories (basic, HAMT, dynamic) behave as name-to-entry maps.
// The execution core is shared with C16 (verifharness/dirx).
package main

import (
	"fmt"
	"strconv"

	"verifharness/dirx"
	"verifharness/vh"
)

var widths = []int{8, 8, 16, 32, 64, 128, 256, 256, 512, 1024}

func lg2(w int) int {
	k := 0
	for 1<<uint(k) < w {
		k++
	}
	return k
}

func gen(r0 *vh.Rand, tier string, n int, emit func(vh.Case)) {
	r0 = vh.NewRand(r0.U64()) // consecutive vh seeds are shifted copies of one stream: re-seed from a mixed draw
	for i := 0; i < n; i++ {
		r := r0.Fork()
		c := vh.Case{ID: strconv.Itoa(i)}
		if r.Chance(1, 8) {
			emit(faultCase(r, c))
			continue
		}
		if r.Chance(1, 10) {
			emit(dynFaultCase(r, c))
			continue
		}
		table := r.Chance(3, 10)
		gthr := vh.Pick(r, []int{0, 120, 200, 300, 450, 700, 1500, 262144})
		gmode := r.Intn(3)
		defw := vh.Pick(r, []int{256, 256, 256, 8, 16, 64})
		hm := "murmur"
		if table {
			hm = "table"
		}
		c.Ops = append(c.Ops, fmt.Sprintf("cfg %d %d %d %s", gthr, gmode, defw, hm))
		kind := vh.Pick(r, []string{"basic", "hamt", "hamt", "dyn", "dyn", "dyn"})
		fan := 0
		if r.Chance(3, 4) {
			fan = vh.Pick(r, widths)
		}
		if r.Chance(1, 40) {
			fan = vh.Pick(r, []int{12, 4, 7, 24, -8})
		}
		eff := fan
		if eff == 0 {
			eff = defw
		}
		maxLinks := 0
		if r.Chance(1, 3) {
			maxLinks = r.Range(1, 12)
		}
		pmode := "-"
		if r.Chance(1, 2) {
			pmode = strconv.Itoa(r.Intn(3))
		}
		pthr := 0
		if r.Chance(1, 3) {
			pthr = vh.Pick(r, []int{90, 150, 260, 400, 900})
		}
		stm, sec, nsec := 0, 0, 0
		if r.Chance(1, 4) {
			stm = vh.Pick(r, []int{0o755, 0o644, 0o7777, 0o1})
		}
		if r.Chance(1, 4) {
			sec = vh.Pick(r, []int{1, 1700000000, -5, 300})
			if r.Bool() {
				nsec = vh.Pick(r, []int{1, 999999999, 500})
			}
		}
		b := vh.Pick(r, []string{"-", "-", "v0", "v1"})
		c.Ops = append(c.Ops, fmt.Sprintf("new %s %d %d %s %d %o %d %d %s", kind, maxLinks, fan, pmode, pthr, stm, sec, nsec, b))
		np := r.Range(3, 24)
		if tier == "thorough" && r.Chance(1, 5) {
			np = r.Range(20, 60)
		}
		var names []dirx.NameH
		if table {
			names = dirx.TablePool(r, np, r.Chance(1, 3))
		} else {
			names = dirx.MurmurPool(r, lg2(eff), np)
		}
		nops := r.Range(5, 60)
		if tier == "thorough" {
			nops = r.Range(5, 80)
		}
		for j := 0; j < nops; j++ {
			nm := vh.Pick(r, names)
			switch k := r.Intn(100); {
			case k < 42:
				c.Ops = append(c.Ops, dirx.AddTok(nm, &dirx.Pool[r.Intn(len(dirx.Pool))]))
			case k < 60:
				c.Ops = append(c.Ops, "rm "+nm.Tok())
			case k < 70:
				c.Ops = append(c.Ops, "find "+nm.Tok())
			case k < 74:
				c.Ops = append(c.Ops, "list")
			case k < 78:
				c.Ops = append(c.Ops, "async")
			case k < 83:
				c.Ops = append(c.Ops, "each")
			case k < 86:
				c.Ops = append(c.Ops, "node")
			case k < 90:
				c.Ops = append(c.Ops, "dump")
			case k < 94:
				c.Ops = append(c.Ops, "reload")
				if r.Bool() {
					// what MFS does after loading: re-apply the settings
					if maxLinks != 0 {
						c.Ops = append(c.Ops, fmt.Sprintf("setmaxlinks %d", maxLinks))
					}
					if fan > 0 && fan%8 == 0 {
						c.Ops = append(c.Ops, fmt.Sprintf("setfanout %d", fan))
					}
					if pmode != "-" {
						c.Ops = append(c.Ops, "setmode "+pmode)
					}
					if pthr != 0 {
						c.Ops = append(c.Ops, fmt.Sprintf("setthr %d", pthr))
					}
				}
			case k < 95:
				c.Ops = append(c.Ops, fmt.Sprintf("setmaxlinks %d", r.Intn(10)))
			case k < 96:
				c.Ops = append(c.Ops, fmt.Sprintf("setfanout %d", vh.Pick(r, widths)))
			case k < 97:
				c.Ops = append(c.Ops, fmt.Sprintf("setmode %d", r.Intn(3)))
			case k < 98:
				c.Ops = append(c.Ops, fmt.Sprintf("setthr %d", vh.Pick(r, []int{0, 100, 250, 600})))
			default:
				c.Ops = append(c.Ops, fmt.Sprintf("setstat %o %d %d", vh.Pick(r, []int{0, 0o700}), vh.Pick(r, []int{0, 77}), vh.Pick(r, []int{0, 5})))
			}
		}
		c.Ops = append(c.Ops, "each", "list", "async", "node", "dump")
		emit(c)
	}
}

// faultCase: a sharded directory (switching disabled, so the dynamic wrapper is inert) is reloaded
// through a DAG service that refuses one sub-shard block; then every API is exercised.  Each must
// either report the fault or behave exactly as the map (in particular: no successful, truncated listing).
func faultCase(r *vh.Rand, c vh.Case) vh.Case {
	table := r.Chance(1, 3)
	hm := "murmur"
	if table {
		hm = "table"
	}
	w := vh.Pick(r, []int{8, 8, 16, 32})
	c.Ops = append(c.Ops, fmt.Sprintf("cfg 0 %d 256 %s", r.Intn(3), hm))
	c.Ops = append(c.Ops, fmt.Sprintf("new hamt 0 %d - 0 0 0 0 %s", w, vh.Pick(r, []string{"-", "v1"})))
	np := r.Range(10, 26)
	var names []dirx.NameH
	if table {
		names = dirx.TablePool(r, np, false)
	} else {
		names = dirx.MurmurPool(r, lg2(w), np)
	}
	for j, m := 0, r.Range(8, np); j < m; j++ {
		c.Ops = append(c.Ops, dirx.AddTok(names[j], &dirx.Pool[r.Intn(len(dirx.Pool))]))
	}
	c.Ops = append(c.Ops, "list", fmt.Sprintf("faultreload %d", r.Intn(50)))
	for j, m := 0, r.Range(5, 25); j < m; j++ {
		nm := vh.Pick(r, names)
		switch k := r.Intn(100); {
		case k < 20:
			c.Ops = append(c.Ops, "find "+nm.Tok())
		case k < 35:
			c.Ops = append(c.Ops, dirx.AddTok(nm, &dirx.Pool[r.Intn(len(dirx.Pool))]))
		case k < 50:
			c.Ops = append(c.Ops, "rm "+nm.Tok())
		case k < 65:
			c.Ops = append(c.Ops, "list")
		case k < 80:
			c.Ops = append(c.Ops, "async")
		case k < 88:
			c.Ops = append(c.Ops, "each")
		case k < 95:
			c.Ops = append(c.Ops, "dump")
		default:
			c.Ops = append(c.Ops, "node")
		}
	}
	c.Ops = append(c.Ops, "list", "async", "dump", "node")
	return c
}

// dynFaultCase: an auto-switching directory sharded by its link limit (size estimation disabled or a
// size mode), reloaded (sub-shards not in memory) with its settings re-applied and its entry count
// known; then a sub-shard block becomes unavailable and entries are removed / replaced: with exactly
// MaxLinks+1 entries a removal decides the HAMT->basic conversion, which must fail WITHOUT having
// changed anything.  The block is restored and every API, and a retry of the same removal, is compared
// with the map.
func dynFaultCase(r *vh.Rand, c vh.Case) vh.Case {
	table := r.Chance(1, 3)
	hm := "murmur"
	if table {
		hm = "table"
	}
	w := vh.Pick(r, []int{8, 8, 16})
	ml := r.Range(5, 12)
	mode := vh.Pick(r, []int{2, 2, 2, 0, 1})
	thr := 262144
	c.Ops = append(c.Ops, fmt.Sprintf("cfg %d %d 256 %s", thr, mode, hm))
	c.Ops = append(c.Ops, fmt.Sprintf("new dyn %d %d - 0 0 0 0 %s", ml, w, vh.Pick(r, []string{"-", "v1"})))
	n := ml + 1 + vh.Pick(r, []int{0, 0, 0, 1, 2})
	var names []dirx.NameH
	if table {
		names = dirx.TablePool(r, n+3, false)
	} else {
		names = dirx.MurmurPool(r, lg2(w), n+3)
	}
	for j := 0; j < n; j++ {
		c.Ops = append(c.Ops, dirx.AddTok(names[j], &dirx.Pool[r.Intn(16)]))
	}
	c.Ops = append(c.Ops, "reload", fmt.Sprintf("setmaxlinks %d", ml), fmt.Sprintf("setfanout %d", w))
	// one operation that makes the entry count known without loading anything else
	c.Ops = append(c.Ops, "rm "+names[n+1].Tok(), "dump")
	c.Ops = append(c.Ops, fmt.Sprintf("fault %d", r.Intn(50)))
	var tried []dirx.NameH
	for j, m := 0, r.Range(2, 6); j < m; j++ {
		nm := names[r.Intn(n)]
		switch r.Intn(6) {
		case 0:
			c.Ops = append(c.Ops, dirx.AddTok(nm, &dirx.Pool[r.Intn(16)]))
		case 1:
			c.Ops = append(c.Ops, "find "+nm.Tok())
		default:
			c.Ops = append(c.Ops, "rm "+nm.Tok())
			tried = append(tried, nm)
		}
	}
	c.Ops = append(c.Ops, "dump", "unfault")
	for _, nm := range tried {
		c.Ops = append(c.Ops, "find "+nm.Tok())
	}
	c.Ops = append(c.Ops, "list", "each", "async")
	for _, nm := range tried {
		c.Ops = append(c.Ops, "rm "+nm.Tok())
	}
	c.Ops = append(c.Ops, "list", "node", "dump")
	return c
}

func exec(c vh.Case, o *vh.Out) { dirx.Run(c, o, false) }

func main() { vh.Main(vh.Config{Gen: gen, Exec: exec}) }
