// C30 harness: drives the real gateway handler (gateway.NewHandler over a BlocksBackend over an
// in-memory blockstore) through httptest with GET/HEAD requests for a UnixFS file that was built by
// the real importer, with Range and conditional headers generated from a grammar.
package main

import (
	"bytes"
	"context"
	"fmt"
	"hash/fnv"
	"net/http"
	"net/http/httptest"
	"os"
	"regexp"
	"strconv"
	"strings"
	"time"

	"github.com/ipfs/boxo/blockservice"
	"github.com/ipfs/boxo/blockstore"
	chunker "github.com/ipfs/boxo/chunker"
	"github.com/ipfs/boxo/exchange/offline"
	"github.com/ipfs/boxo/gateway"
	"github.com/ipfs/boxo/gateway/assets"
	dag "github.com/ipfs/boxo/ipld/merkledag"
	"github.com/ipfs/boxo/ipld/unixfs/importer/balanced"
	h "github.com/ipfs/boxo/ipld/unixfs/importer/helpers"
	"github.com/ipfs/boxo/ipld/unixfs/importer/trickle"
	"github.com/ipfs/boxo/path"
	ufile "github.com/ipfs/boxo/ipld/unixfs/file"
	ds "github.com/ipfs/go-datastore"
	dssync "github.com/ipfs/go-datastore/sync"
	ipld "github.com/ipfs/go-ipld-format"
	golog "github.com/ipfs/go-log/v2"

	"verifharness/vh"
)

// ---------------------------------------------------------------- shared world

type world struct {
	dsv     ipld.DAGService
	handler http.Handler
	// the same blocks behind a CarBackend: its fetcher asks the BlocksBackend for the CAR a remote
	// trustless gateway would send, so the file reader only has the blocks of the requested byte range
	carHandler http.Handler
}

type localCarFetcher struct{ bb *gateway.BlocksBackend }

func (f *localCarFetcher) Fetch(ctx context.Context, p path.ImmutablePath, params gateway.CarParams, cb gateway.DataCallback) error {
	_, rc, err := f.bb.GetCAR(ctx, p, params)
	if err != nil {
		return err
	}
	defer rc.Close()
	return cb(p, rc)
}

var theWorld *world

func getWorld() *world {
	if theWorld != nil {
		return theWorld
	}
	golog.SetAllLoggers(golog.LevelFatal)
	bs := blockstore.NewBlockstore(dssync.MutexWrap(ds.NewMapDatastore()))
	bsvc := blockservice.New(bs, offline.Exchange(bs))
	backend, err := gateway.NewBlocksBackend(bsvc)
	if err != nil {
		panic(err)
	}
	carBackend, err := gateway.NewCarBackend(&localCarFetcher{backend})
	if err != nil {
		panic(err)
	}
	theWorld = &world{
		dsv:        dag.NewDAGService(bsvc),
		handler:    gateway.NewHandler(gateway.Config{DeserializedResponses: true}, backend),
		carHandler: gateway.NewHandler(gateway.Config{DeserializedResponses: true}, carBackend),
	}
	return theWorld
}

// genContent is the position-identifying byte pattern shared with the Lean driver (C30.genContent).
func genContent(seed, size int) []byte {
	b := make([]byte, size)
	for i := range b {
		b[i] = byte((seed*31 + i*167 + (i/256)*13 + (i/65536)*7) % 256)
	}
	return b
}

type fileSpec struct {
	seed, size    int
	layout        string
	chunk, links  int
	raw           bool
	cidv          int
	mtime         int64
	mnanos        int64
}

func (s fileSpec) String() string {
	raw := 0
	if s.raw {
		raw = 1
	}
	return fmt.Sprintf("%d %d %s %d %d %d %d %d.%d", s.seed, s.size, s.layout, s.chunk, s.links, raw, s.cidv, s.mtime, s.mnanos)
}

// importFile builds the file with the real importer; it returns the root CID, the content and the
// mtime the stored DAG really carries (a raw-leaf root has none, whatever was asked for).
func importFile(w *world, s fileSpec) (string, []byte, string, error) {
	data := genContent(s.seed, s.size)
	p, err := dag.PrefixForCidVersion(s.cidv)
	if err != nil {
		return "", nil, "", err
	}
	params := h.DagBuilderParams{Maxlinks: s.links, RawLeaves: s.raw, CidBuilder: p, Dagserv: w.dsv}
	if s.mtime != 0 || s.mnanos != 0 {
		params.FileModTime = time.Unix(s.mtime, s.mnanos)
	}
	db, err := params.New(chunker.NewSizeSplitter(bytes.NewReader(data), int64(s.chunk)))
	if err != nil {
		return "", nil, "", err
	}
	var nd ipld.Node
	if s.layout == "bal" {
		nd, err = balanced.Layout(db)
	} else {
		nd, err = trickle.Layout(db)
	}
	if err != nil {
		return "", nil, "", err
	}
	uf, err := ufile.NewUnixfsFile(context.Background(), w.dsv, nd)
	if err != nil {
		return "", nil, "", err
	}
	defer uf.Close()
	actual := "0 0"
	if mt := uf.ModTime(); !mt.IsZero() {
		actual = fmt.Sprintf("%d %d", mt.Unix(), mt.Nanosecond())
	}
	return nd.Cid().String(), data, actual, nil
}

// ---------------------------------------------------------------- generator

const baseTime = 1700000000

func httpDate(sec int64) string { return time.Unix(sec, 0).UTC().Format(http.TimeFormat) }

func parseT(s string) string {
	if s == "" {
		return "x"
	}
	t, err := http.ParseTime(s)
	if err != nil {
		return "x"
	}
	return strconv.FormatInt(t.Unix(), 10)
}

func hexs(s string) string { return vh.Hex([]byte(s)) }

func genOffset(r *vh.Rand, size int) string {
	var v int
	k := r.Intn(14)
	if (k == 6 || k == 7) && !r.Chance(1, 4) {
		k = 10
	}
	switch k {
	case 0:
		v = 0
	case 1:
		v = 1
	case 2:
		v = size - 1
	case 3:
		v = size
	case 4:
		v = size + 1
	case 5:
		v = size / 2
	case 6:
		return "9223372036854775807"
	case 7:
		return vh.Pick(r, []string{"9223372036854775808", "18446744073709551616", "99999999999999999999999"})
	case 8:
		v = size + r.Intn(10000)
	case 9:
		v = size - 2
	default:
		v = r.Intn(size + 2)
	}
	if v < 0 {
		v = 0
	}
	s := strconv.Itoa(v)
	if r.Chance(1, 25) {
		s = "+" + s
	}
	if r.Chance(1, 25) {
		s = "00" + s
	}
	return s
}

func ws(r *vh.Rand) string {
	if r.Chance(1, 8) {
		return vh.Pick(r, []string{" ", "\t", "  ", " \t"})
	}
	return ""
}

func genSpec(r *vh.Rand, size int) string {
	k := r.Intn(10)
	if k == 9 && !r.Chance(1, 3) {
		k = r.Intn(9)
	}
	switch k {
	case 0, 1, 2, 3:
		a, b := genOffset(r, size), genOffset(r, size)
		if r.Chance(4, 5) { // mostly ordered
			x, e1 := strconv.ParseInt(a, 10, 64)
			y, e2 := strconv.ParseInt(b, 10, 64)
			if e1 == nil && e2 == nil && x > y {
				a, b = b, a
			}
		}
		return ws(r) + a + ws(r) + "-" + ws(r) + b + ws(r)
	case 4, 5:
		return ws(r) + genOffset(r, size) + ws(r) + "-" + ws(r)
	case 6, 7, 8:
		return ws(r) + "-" + ws(r) + genOffset(r, size) + ws(r)
	default:
		return vh.Pick(r, []string{"", " ", "-", "--5", "5", "a-b", "3-x", "x-3", "-x", "1-2-3", "-5-", "- -5", "0x10-", "1_0-", "5-2", "\x80-"})
	}
}

func genRange(r *vh.Rand, size int) string {
	if r.Chance(1, 30) {
		return vh.Pick(r, []string{"items=0-1", "bytes", "bytes=", "Bytes=0-1", "bytes =0-1", " bytes=0-1", "bytes=,", "bytes= , ,", "0-1"})
	}
	n := 1
	if r.Chance(1, 3) {
		n = r.Range(2, 4)
	}
	if r.Chance(1, 40) {
		n = r.Range(5, 12)
	}
	parts := make([]string, n)
	for i := range parts {
		parts[i] = genSpec(r, size)
	}
	return "bytes=" + strings.Join(parts, ",")
}

func genEtagList(r *vh.Rand, etag, dir, dagE string) string {
	other := `"bafkqaaa"`
	one := func() string {
		switch r.Intn(12) {
		case 0, 1, 2:
			return etag
		case 3:
			return "W/" + etag
		case 4:
			return other
		case 5:
			return "W/" + other
		case 6:
			return "*"
		case 7:
			return dir
		case 8:
			return dagE
		case 9:
			return vh.Pick(r, []string{`"unterminated`, `noquote"`, `"a b"`, `w/"x"`, `"`, `W/`, `""`, "\"\x80\xff\"", `"a"b"`})
		case 10:
			return strings.Trim(etag, `"`)
		default:
			return `"x` + strconv.Itoa(r.Intn(100)) + `"`
		}
	}
	n := 1
	if r.Chance(1, 3) {
		n = r.Range(2, 4)
	}
	parts := make([]string, n)
	for i := range parts {
		parts[i] = ws(r) + one() + ws(r)
	}
	sep := ","
	if r.Chance(1, 10) {
		sep = vh.Pick(r, []string{", ", ",,", " "})
	}
	return strings.Join(parts, sep)
}

func genDate(r *vh.Rand, mtime int64) string {
	m := mtime
	if m == 0 && r.Bool() {
		m = baseTime
	}
	switch r.Intn(8) {
	case 0, 1:
		return httpDate(m)
	case 2:
		return httpDate(m + int64(r.Range(1, 100000)))
	case 3:
		return httpDate(m - int64(r.Range(1, 100000)))
	case 4:
		return httpDate(0)
	case 5:
		return time.Unix(m, 0).UTC().Format(time.RFC850)
	case 6:
		return time.Unix(m, 0).UTC().Format(time.ANSIC)
	default:
		return vh.Pick(r, []string{"yesterday", "0", "Tue, 14 Nov 2023 22:13:20 UTC", "Tue, 14 Nov 2023 22:13:20 +0000"})
	}
}

func gen(r *vh.Rand, tier string, n int, emit func(vh.Case)) {
	w := getWorld()
	for i := 0; i < n; i++ {
		cr := r.Fork()
		c := vh.Case{ID: strconv.Itoa(i)}
		var s fileSpec
		s.seed = cr.Intn(1000)
		switch k := cr.Intn(100); {
		case k < 5:
			s.size = 0
		case k < 35:
			s.size = cr.Range(1, 40)
		case k < 80:
			s.size = cr.Range(41, 3000)
		case k < 96:
			s.size = cr.Range(3001, 70000)
		default:
			s.size = cr.Range(70001, 300000)
			if tier == "thorough" && cr.Chance(1, 4) {
				s.size = cr.Range(300001, 2<<20)
			}
		}
		s.layout = vh.Pick(cr, []string{"bal", "bal", "tri"})
		s.chunk = vh.Pick(cr, []int{1, 2, 3, 5, 16, 64, 256, 1024, 4096, 262144})
		for s.size/s.chunk > 1500 {
			s.chunk *= 4
		}
		s.links = vh.Pick(cr, []int{2, 3, 4, 8, 174})
		s.raw = cr.Bool()
		s.cidv = cr.Intn(2)
		if cr.Chance(3, 10) {
			s.mtime = baseTime + int64(cr.Intn(1000000))
			if cr.Chance(1, 3) {
				s.mnanos = int64(cr.Range(1, 999999999))
			}
		}
		if cr.Chance(1, 40) { // Unix second 0 with a fraction: not "zero time"
			s.mtime, s.mnanos = 0, int64(cr.Range(1, 999999999))
		}
		cidStr, _, actualStr, err := importFile(w, s)
		if err != nil {
			panic(err)
		}
		etag := `"` + cidStr + `"`
		dir := `"DirIndex-` + assets.AssetHash + `_CID-` + cidStr + `"`
		dagE := `"DagIndex-` + assets.AssetHash + `_CID-` + cidStr + `"`
		var actualMtime int64
		fmt.Sscanf(actualStr, "%d", &actualMtime)
		c.Ops = append(c.Ops, fmt.Sprintf("file %s %s %s %s", s, cidStr, assets.AssetHash, actualStr))
		nreq := cr.Range(3, 9)
		for j := 0; j < nreq; j++ {
			method := "GET"
			if cr.Chance(1, 4) {
				method = "HEAD"
			}
			fn := cr.Intn(2)
			rg, ir, inm, im, ius, ims := "", "", "", "", "", ""
			if cr.Chance(9, 10) {
				rg = genRange(cr, s.size)
			}
			if cr.Chance(2, 5) {
				switch cr.Intn(8) {
				case 0, 1:
					ir = etag
				case 2:
					ir = "W/" + etag
				case 3:
					ir = `"other"`
				case 4, 5:
					ir = genDate(cr, actualMtime)
				case 6:
					ir = genEtagList(cr, etag, dir, dagE)
				default:
					ir = ws(cr) + etag + ws(cr)
				}
			}
			if cr.Chance(1, 7) {
				inm = genEtagList(cr, etag, dir, dagE)
			}
			if cr.Chance(1, 10) {
				im = genEtagList(cr, etag, dir, dagE)
			}
			if cr.Chance(1, 10) {
				ius = genDate(cr, actualMtime)
			}
			if cr.Chance(1, 10) {
				ims = genDate(cr, actualMtime)
			}
			c.Ops = append(c.Ops, fmt.Sprintf("req %s %d %s %s %s %s %s %s %s %s %s", method, fn,
				hexs(rg), hexs(ir), hexs(inm), hexs(im), parseT(ius), parseT(ims), parseT(ir), hexs(ius), hexs(ims)))
		}
		emit(c)
	}
}

// ---------------------------------------------------------------- exec

type reqSpec struct {
	method                    string
	fn                        bool
	rg, ir, inm, im, ius, ims string
}

func doReq(w *world, cidStr string, q reqSpec) *httptest.ResponseRecorder {
	return doReqH(w.handler, cidStr, q)
}

func doReqH(handler http.Handler, cidStr string, q reqSpec) *httptest.ResponseRecorder {
	url := "/ipfs/" + cidStr
	if q.fn {
		url += "?filename=f.txt"
	}
	req := httptest.NewRequest(q.method, url, nil).WithContext(context.Background())
	set := func(k, v string) {
		if v != "" {
			req.Header[k] = []string{v}
		}
	}
	set("Range", q.rg)
	set("If-Range", q.ir)
	set("If-None-Match", q.inm)
	set("If-Match", q.im)
	set("If-Unmodified-Since", q.ius)
	set("If-Modified-Since", q.ims)
	rec := httptest.NewRecorder()
	handler.ServeHTTP(rec, req)
	return rec
}

func fnv32(b []byte) uint32 {
	hh := fnv.New32a()
	hh.Write(b)
	return hh.Sum32()
}

var crRe = regexp.MustCompile(`^bytes (-?\d+)-(-?\d+)/(\d+)$`)

// independent reading of a Range header (RFC 7233 grammar, optional whitespace): the list of
// (first, last, suffix) specs, or ok=false when the header is not a well-formed byte-range set.
var specRe = regexp.MustCompile(`^[ \t]*(\+?\d+|)[ \t]*-[ \t]*(\+?\d+|)[ \t]*$`)

type rspec struct {
	first, last int64
	hasFirst    bool
	hasLast     bool
}

func readRange(hdr string) ([]rspec, bool) {
	if !strings.HasPrefix(hdr, "bytes=") {
		return nil, false
	}
	var out []rspec
	for _, p := range strings.Split(hdr[6:], ",") {
		if strings.Trim(p, " \t") == "" {
			continue
		}
		m := specRe.FindStringSubmatch(p)
		if m == nil || (m[1] == "" && m[2] == "") {
			return nil, false
		}
		var s rspec
		var err error
		if m[1] != "" {
			s.hasFirst = true
			if s.first, err = strconv.ParseInt(m[1], 10, 64); err != nil {
				return nil, false
			}
		}
		if m[2] != "" {
			s.hasLast = true
			if s.last, err = strconv.ParseInt(m[2], 10, 64); err != nil {
				return nil, false
			}
		}
		if s.hasFirst && s.hasLast && s.first > s.last {
			return nil, false
		}
		out = append(out, s)
	}
	return out, len(out) > 0
}

func overlaps(s rspec, size int64) bool {
	if s.hasFirst {
		return s.first < size
	}
	return true // a suffix range selects the last bytes of any representation (possibly none: "-0")
}

func canonical(rec *httptest.ResponseRecorder, etag, dir, dagE string) string {
	res := rec.Result()
	cr := res.Header.Get("Content-Range")
	if cr == "" {
		cr = "-"
	}
	cr = strings.ReplaceAll(cr, " ", "_")
	cl := res.Header.Get("Content-Length")
	if cl == "" {
		cl = "-"
	}
	lm := 0
	if res.Header.Get("Last-Modified") != "" {
		lm = 1
	}
	et := res.Header.Get("Etag")
	switch et {
	case "":
		et = "-"
	case etag:
		et = "E"
	case dir:
		et = "D"
	case dagE:
		et = "G"
	default:
		et = hexs(et)
	}
	body := "-"
	if res.StatusCode == 200 || res.StatusCode == 206 {
		body = fmt.Sprintf("%d:%d", rec.Body.Len(), fnv32(rec.Body.Bytes()))
	}
	return fmt.Sprintf("%d cr=%s cl=%s lm=%d et=%s body=%s", res.StatusCode, cr, cl, lm, et, body)
}

// monitor: the property's own predicate on one response
// failFn reports a monitor failure; the CAR-backend shadow prefixes the sig with "car-"
type failFn func(sig string, format string, a ...any)

func monitor(fail failFn, handler http.Handler, cidStr string, data []byte, q reqSpec, rec *httptest.ResponseRecorder) {
	res := rec.Result()
	size := int64(len(data))
	body := rec.Body.Bytes()
	st := res.StatusCode
	cl := res.Header.Get("Content-Length")
	cr := res.Header.Get("Content-Range")
	specs, wellFormed := readRange(q.rg)
	// (for error statuses the handler writes the error text through http.Error; the HTTP server drops it for HEAD)
	if q.method == "HEAD" && len(body) != 0 && st < 300 {
		fail("head-has-body", "HEAD answered %d body bytes", len(body))
	}
	switch st {
	case 200:
		if cr != "" {
			fail("200-with-content-range", "200 with Content-Range %q", cr)
		}
		if cl != strconv.FormatInt(size, 10) {
			fail("200-content-length", "200 Content-Length=%q size=%d", cl, size)
		}
		if q.method == "GET" && !bytes.Equal(body, data) {
			if q.ir != "" {
				fail("ifrange-200-partial-body", "200 with Content-Length=%s but body has %d bytes and is not the file (Range=%q If-Range=%q)", cl, len(body), q.rg, q.ir)
			} else {
				fail("ignored-ranges-200-partial-body", "200 with Content-Length=%s but body has %d bytes and is not the file (Range=%q)", cl, len(body), q.rg)
			}
		}
	case 206:
		m := crRe.FindStringSubmatch(cr)
		if m == nil {
			fail("206-content-range-syntax", "206 Content-Range=%q", cr)
			break
		}
		a, _ := strconv.ParseInt(m[1], 10, 64)
		b, _ := strconv.ParseInt(m[2], 10, 64)
		sz, _ := strconv.ParseInt(m[3], 10, 64)
		if sz != size || a < 0 || b >= size || a > b+1 {
			fail("206-content-range-bounds", "Content-Range=%q size=%d", cr, size)
			break
		}
		if cl != strconv.FormatInt(b-a+1, 10) {
			fail("206-content-length", "Content-Range=%q Content-Length=%q", cr, cl)
		}
		if q.method == "GET" && !bytes.Equal(body, data[a:b+1]) {
			fail("206-body-not-content-range-slice", "Content-Range=%q but body (%d bytes) is not that slice (Range=%q)", cr, len(body), q.rg)
		}
	case 416:
		if q.rg == "" {
			fail("416-without-range", "")
		}
		if wellFormed {
			for _, s := range specs {
				if overlaps(s, size) {
					fail("416-although-overlap", "Range=%q size=%d", q.rg, size)
					break
				}
			}
			if size == 0 {
				fail("416-on-empty-file", "Range=%q", q.rg)
			}
			if cr != fmt.Sprintf("bytes */%d", size) {
				fail("416-content-range", "Content-Range=%q", cr)
			}
		} else {
			fail("416-for-malformed-range", "%s Range=%q", q.method, q.rg)
		}
	case 304, 412:
		if len(body) != 0 {
			fail("precondition-response-has-body", "%d with %d body bytes", st, len(body))
		}
	case 400:
		if wellFormed {
			fail("400-for-wellformed-range", "%s Range=%q", q.method, q.rg)
		}
	default:
		if wellFormed && st >= 500 && !specs[0].hasFirst && specs[0].last > size {
			fail("suffix-gt-size-error", "%s Range=%q on a file of %d bytes answered %d", q.method, q.rg, size, st)
		} else {
			fail("unexpected-status", "%s Range=%q answered %d", q.method, q.rg, st)
		}
	}
	// no conditional headers: a well-formed Range none of whose specs overlaps must be 416 (size > 0),
	// and a well-formed Range with an overlapping spec must not
	if q.ir == "" && q.inm == "" && q.im == "" && q.ius == "" && q.ims == "" && wellFormed && size > 0 {
		any := false
		for _, s := range specs {
			any = any || overlaps(s, size)
		}
		if !any && st != 416 {
			fail("no-overlap-not-416", "Range=%q size=%d answered %d", q.rg, size, st)
		}
	}
	// HEAD must answer like GET (status and the headers of the property) unless GET rejects the Range syntax
	if q.method == "HEAD" {
		g := q
		g.method = "GET"
		grec := doReqH(handler, cidStr, g)
		gres := grec.Result()
		if gres.StatusCode < 500 {
			if gres.StatusCode != st || gres.Header.Get("Content-Range") != cr || gres.Header.Get("Content-Length") != cl {
				fail("head-get-differ", "HEAD %d cr=%q cl=%q, GET %d cr=%q cl=%q (Range=%q)", st, cr, cl,
					gres.StatusCode, gres.Header.Get("Content-Range"), gres.Header.Get("Content-Length"), q.rg)
			}
		}
	}
}

func exec(c vh.Case, o *vh.Out) {
	w := getWorld()
	var cidStr, etag, dir, dagE string
	var data []byte
	var spec fileSpec
	have := false
	for _, line := range c.Ops {
		f := strings.Fields(line)
		switch {
		case f[0] == "file" && len(f) == 13:
			spec = fileSpec{seed: vh.Atoi(f[1]), size: vh.Atoi(f[2]), layout: f[3], chunk: vh.Atoi(f[4]), links: vh.Atoi(f[5]),
				raw: f[6] == "1", cidv: vh.Atoi(f[7])}
			fmt.Sscanf(f[8], "%d.%d", &spec.mtime, &spec.mnanos)
			got, d, actual, err := importFile(w, spec)
			if err != nil {
				o.Emit("import-error")
				continue
			}
			if got != f[9] || assets.AssetHash != f[10] || actual != f[11]+" "+f[12] {
				// the CID in the op line is a parameter of the model; it must be the real one
				o.Emit("cid-mismatch")
				continue
			}
			cidStr, data, have = got, d, true
			etag = `"` + cidStr + `"`
			dir = `"DirIndex-` + assets.AssetHash + `_CID-` + cidStr + `"`
			dagE = `"DagIndex-` + assets.AssetHash + `_CID-` + cidStr + `"`
			o.Kind("layout-" + spec.layout)
			if spec.size > spec.chunk {
				o.Kind("multi-block")
			} else if spec.raw && spec.cidv == 1 {
				o.Kind("raw-root")
			}
			if actual != "0 0" {
				o.Kind("mtime")
				if f[12] != "0" {
					o.Kind("mtime-subsecond")
				}
			}
			o.Emit("ok %d", len(data))
		case f[0] == "req" && len(f) == 12 && have:
			if f[1] != "GET" && f[1] != "HEAD" {
				o.Emit("bad-op")
				continue
			}
			q := reqSpec{method: f[1], fn: f[2] == "1", rg: string(vh.UnHex(f[3])), ir: string(vh.UnHex(f[4])),
				inm: string(vh.UnHex(f[5])), im: string(vh.UnHex(f[6])), ius: string(vh.UnHex(f[10])), ims: string(vh.UnHex(f[11]))}
			if parseT(q.ius) != f[7] || parseT(q.ims) != f[8] || parseT(q.ir) != f[9] {
				o.Emit("bad-op") // the parsed dates are parameters of the model and must match the headers
				continue
			}
			rec := doReq(w, cidStr, q)
			monitor(o.Fail, w.handler, cidStr, data, q, rec)
			// The same GET against the CAR backend (monitor only; the model is the BlocksBackend path). Its file
			// reader only has the blocks of the byte range the backend asked upstream for, which was chosen from the
			// first length-less range, so it cannot be repositioned: the divergences (a), (b), (d) are evaluated there.
			// Everything else the CarBackend does differently (5xx from partial CARs, HEAD) is counted, not judged:
			// backend_car.go is not part of this property's mechanism.
			if q.method == "GET" && q.rg != "" && len(data) <= 20000 && len(data)/spec.chunk <= 300 {
				crec := doReqH(w.carHandler, cidStr, q)
				monitor(func(sig string, format string, a ...any) {
					switch sig {
					case "ifrange-200-partial-body", "206-body-not-content-range-slice", "ignored-ranges-200-partial-body", "suffix-gt-size-error":
						o.Fail("car-"+sig, format, a...)
					default:
						o.Kind("car-other:" + sig)
					}
				}, w.carHandler, cidStr, data, q, crec)
				if crec.Result().StatusCode == rec.Result().StatusCode && bytes.Equal(crec.Body.Bytes(), rec.Body.Bytes()) {
					o.Kind("car-same-as-blocks")
				}
			}
			st := rec.Result().StatusCode
			o.Kind(fmt.Sprintf("%s-%d", q.method, st))
			if specs, ok := readRange(q.rg); ok {
				if len(specs) > 1 {
					o.Kind("range-multi")
				}
				s := specs[0]
				switch {
				case !s.hasFirst:
					o.Kind("range-suffix")
					if s.last > int64(len(data)) {
						o.Kind("range-suffix-gt-size")
					}
				case !s.hasLast:
					o.Kind("range-open")
				default:
					o.Kind("range-closed")
				}
				if s.hasFirst && s.first >= int64(len(data)) && len(specs) > 1 {
					o.Kind("first-range-beyond-size")
				}
			} else if q.rg != "" {
				o.Kind("range-malformed")
			}
			if q.ir != "" && q.rg != "" {
				if st == 200 {
					o.Kind("if-range-200")
				} else if st == 206 {
					o.Kind("if-range-206")
				}
			}
			if q.method == "GET" && st == 206 && rec.Body.Len() > 0 && spec.size > spec.chunk {
				o.Nontrivial()
			}
			o.Emit("%s", canonical(rec, etag, dir, dagE))
		default:
			o.Emit("bad-op")
		}
	}
}

func main() {
	// `hx fileline <seed> <size> <layout> <chunk> <links> <raw> <cidv> <mtime>` prints the `file` op line
	// (with the real CID) for hand-written corpus cases
	if len(os.Args) == 10 && os.Args[1] == "fileline" {
		a := os.Args[2:]
		s := fileSpec{seed: vh.Atoi(a[0]), size: vh.Atoi(a[1]), layout: a[2], chunk: vh.Atoi(a[3]), links: vh.Atoi(a[4]),
			raw: a[5] == "1", cidv: vh.Atoi(a[6])}
		fmt.Sscanf(a[7], "%d.%d", &s.mtime, &s.mnanos)
		c, _, actual, err := importFile(getWorld(), s)
		if err != nil {
			panic(err)
		}
		fmt.Printf("file %s %s %s %s\n", s, c, assets.AssetHash, actual)
		return
	}
	vh.Main(vh.Config{Gen: gen, Exec: exec})
}
