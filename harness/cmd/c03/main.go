// C03 harness: drives the real blockstore.ValidatingBlockstore, filestore.FileManager and
// filestore.Filestore against corrupted backing stores, mutated files and a misbehaving HTTP server.
package main

import (
	"bytes"
	"context"
	"errors"
	"fmt"
	"net/http"
	"net/http/httptest"
	"os"
	"path/filepath"
	"sort"
	"strconv"
	"strings"
	"sync"

	"github.com/ipfs/boxo/blockstore"
	"github.com/ipfs/boxo/datastore/dshelp"
	"github.com/ipfs/boxo/filestore"
	pb "github.com/ipfs/boxo/filestore/pb"
	"github.com/ipfs/boxo/filestore/posinfo"
	dag "github.com/ipfs/boxo/ipld/merkledag"
	blocks "github.com/ipfs/go-block-format"
	"github.com/ipfs/go-cid"
	ds "github.com/ipfs/go-datastore"
	ipld "github.com/ipfs/go-ipld-format"
	logging "github.com/ipfs/go-log/v2"
	mh "github.com/multiformats/go-multihash"
	"google.golang.org/protobuf/proto"

	"verifharness/vh"
)

const srvPrefix = "http://srv/"

func cidStr(c cid.Cid) string {
	return fmt.Sprintf("%d:%d:%s", c.Version(), c.Type(), vh.Hex(c.Hash()))
}

func parseCid(s string) cid.Cid {
	f := strings.Split(s, ":")
	h := vh.UnHex(f[2])
	codec, _ := strconv.ParseUint(f[1], 10, 64)
	if f[0] == "0" {
		return cid.NewCidV0(h)
	}
	return cid.NewCidV1(codec, h)
}

// verdict of c.Prefix().Sum(data) against c — the hash-function parameter of the model
func verdict(c cid.Cid, data []byte) string {
	rc, err := c.Prefix().Sum(data)
	switch {
	case err != nil:
		return "err"
	case rc.Equals(c):
		return "eq"
	default:
		return "ne"
	}
}

// ---------------------------------------------------------------- generator

type gfile struct {
	kind string // "file" | "dir" | "missing"
	data []byte
}
type gref struct {
	path      string
	off, size uint64
}
type gurl struct {
	kind    string
	status  int
	content []byte
}

type gstate struct {
	r      *vh.Rand
	ops    []string
	files  map[string]*gfile
	urls   map[string]*gurl
	refs   map[string]*gref  // mh hex -> reference
	inner  map[string][]byte // mh hex -> bytes in the plain blockstore
	cids   []cid.Cid         // CIDs ever used (request pool)
	hseen  map[string]bool
	bad    map[string]bool // multihashes whose reference is an undecodable protobuf
	reader string
}

func (g *gstate) has(m string) bool {
	_, a := g.inner[m]
	_, b := g.refs[m]
	return a || b || g.bad[m]
}

func (g *gstate) emit(f string, a ...any) { g.ops = append(g.ops, fmt.Sprintf(f, a...)) }

func (g *gstate) h(c cid.Cid, data []byte) {
	k := cidStr(c) + " " + vh.Hex(data)
	if !g.hseen[k] {
		g.hseen[k] = true
		g.emit("h %s %s", k, verdict(c, data))
	}
}

func (g *gstate) mkCid(data []byte) cid.Cid {
	var h mh.Multihash
	switch k := g.r.Intn(12); {
	case k == 0:
		h, _ = mh.Sum(data, mh.SHA2_512, -1)
	case k == 1:
		h, _ = mh.Sum(data, mh.IDENTITY, -1)
	case k == 2:
		h, _ = mh.Sum(data, mh.SHA2_256, 20) // truncated digest
	case k == 3:
		// a multihash whose function go-multihash cannot compute: Prefix().Sum fails
		h, _ = mh.Encode(g.r.Bytes(8), 0x300000+uint64(g.r.Intn(9)))
	default:
		h, _ = mh.Sum(data, mh.SHA2_256, -1)
	}
	var c cid.Cid
	switch g.r.Intn(3) {
	case 0:
		c = cid.NewCidV1(cid.Raw, h)
	case 1:
		c = cid.NewCidV1(cid.DagProtobuf, h)
	default:
		if d, err := mh.Decode(h); err == nil && d.Code == mh.SHA2_256 && d.Length == 32 {
			c = cid.NewCidV0(h)
		} else {
			c = cid.NewCidV1(cid.Raw, h)
		}
	}
	g.cids = append(g.cids, c)
	return c
}

// region the real code will hash for reference rf, as far as the generator can tell (used only to
// supply hash verdicts; a wrong guess shows up as a model/implementation difference)
func (g *gstate) regions(rf *gref) [][]byte {
	var out [][]byte
	add := func(b []byte) { out = append(out, append([]byte{}, b...)) }
	if strings.HasPrefix(rf.path, "http") {
		if u := g.urls[rf.path]; u != nil {
			bodies := [][]byte{u.content}
			if u.kind == "range" && rf.off < uint64(len(u.content)) {
				bodies = append(bodies, u.content[rf.off:])
			}
			for _, b := range bodies {
				if uint64(len(b)) >= rf.size {
					add(b[:rf.size])
				}
			}
		}
		return out
	}
	f := g.files[rf.path]
	if rf.size == 0 {
		add(nil)
	}
	if f != nil && f.kind == "file" && rf.off <= uint64(len(f.data)) && rf.off+rf.size <= uint64(len(f.data)) {
		add(f.data[rf.off : rf.off+rf.size])
	}
	return out
}

func (g *gstate) get() {
	c := vh.Pick(g.r, g.cids)
	if g.r.Chance(1, 3) { // an alias of the same multihash
		if g.r.Bool() {
			c = cid.NewCidV1(cid.Raw, c.Hash())
		} else {
			c = cid.NewCidV1(cid.DagCBOR, c.Hash())
		}
	}
	op := vh.Pick(g.r, []string{"fmget", "fmget", "fmget", "vget", "vget", "fsget"})
	if _, ok := g.inner[vh.Hex(c.Hash())]; op == "vget" && !ok && g.r.Chance(2, 3) {
		// prefer a CID whose multihash the plain blockstore holds
		for _, c2 := range g.cids {
			if _, ok := g.inner[vh.Hex(c2.Hash())]; ok {
				c = c2
				break
			}
		}
	}
	m := vh.Hex(c.Hash())
	if d, ok := g.inner[m]; ok && op != "fmget" {
		g.h(c, d)
	}
	if rf := g.refs[m]; rf != nil && op != "vget" {
		for _, reg := range g.regions(rf) {
			g.h(cid.NewCidV1(cid.Raw, c.Hash()), reg)
		}
	}
	g.emit("%s %s", op, cidStr(c))
	// read - modify the referenced region in place (same length; the executor restores the file's
	// mtime) - read again: a verification result must never be reused across a content change
	if rf := g.refs[m]; rf != nil && op != "vget" && g.r.Chance(1, 4) && !strings.HasPrefix(rf.path, "http") {
		if f := g.files[rf.path]; f != nil && f.kind == "file" && rf.size > 0 && rf.off+rf.size <= uint64(len(f.data)) {
			d := append([]byte{}, f.data...)
			d[rf.off+uint64(g.r.Intn(int(rf.size)))] ^= byte(1 << g.r.Intn(8))
			f.data = d
			g.emit("fwrite %s %s", rf.path, vh.Hex(d))
			for _, reg := range g.regions(rf) {
				g.h(cid.NewCidV1(cid.Raw, c.Hash()), reg)
			}
			if d2, ok := g.inner[m]; ok && op == "fsget" {
				g.h(c, d2)
			}
			g.emit("%s %s", op, cidStr(c))
		}
	}
}

func gen(r *vh.Rand, tier string, n int, emit func(vh.Case)) {
	for i := 0; i < n; i++ {
		rr := r.Fork()
		g := &gstate{r: rr, files: map[string]*gfile{}, urls: map[string]*gurl{}, refs: map[string]*gref{},
			inner: map[string][]byte{}, hseen: map[string]bool{}, bad: map[string]bool{}}
		af, au := !rr.Chance(1, 12), !rr.Chance(1, 8)
		g.reader = "std"
		if rr.Chance(1, 3) {
			g.reader = "mmap"
		}
		g.emit("cfg %d %d %s", b2i(af), b2i(au), g.reader)
		names := []string{"a.bin", "b.bin", "sub.d", "c"}
		unames := []string{srvPrefix + "u1", srvPrefix + "u2", "https://srv/u3"}
		writeFile := func(name string, data []byte) {
			g.files[name] = &gfile{kind: "file", data: data}
			g.emit("fwrite %s %s", name, vh.Hex(data))
		}
		// file contents: random bytes, often ending in a run of zero bytes (a truncation inside the run
		// removes bytes that a zero-initialised read buffer would "restore")
		content := func() []byte {
			d := rr.Bytes(rr.Range(0, 48))
			if rr.Chance(1, 3) {
				d = append(d, make([]byte, rr.Range(1, 16))...)
			}
			return d
		}
		for j, m := 0, rr.Range(1, 3); j < m; j++ {
			writeFile(names[j], content())
		}
		setURL := func(name string) {
			u := &gurl{kind: vh.Pick(rr, []string{"range", "range", "range", "full", "down", "status"}), content: rr.Bytes(rr.Range(0, 40))}
			if u.kind == "status" {
				u.status = vh.Pick(rr, []int{404, 500, 204, 301, 416})
			}
			g.urls[name] = u
			g.emit("url %s %s %d %s", name, u.kind, u.status, vh.Hex(u.content))
		}
		if rr.Chance(1, 2) {
			setURL(unames[0])
		}
		// references
		newRef := func() {
			if len(g.urls) > 0 && rr.Chance(1, 3) {
				var name string
				for k := range g.urls {
					if name == "" || k < name {
						name = k
					}
				}
				u := g.urls[name]
				off, size := uint64(0), uint64(0)
				if len(u.content) > 0 {
					off = uint64(rr.Intn(len(u.content)))
					size = uint64(rr.Intn(len(u.content) - int(off) + 1))
				}
				c := g.mkCid(u.content[off : off+size])
				g.refs[vh.Hex(c.Hash())] = &gref{name, off, size}
				delete(g.bad, vh.Hex(c.Hash()))
				g.emit("ref %s %s %d %d", vh.Hex(c.Hash()), name, off, size)
				return
			}
			name := vh.Pick(rr, names[:3])
			f := g.files[name]
			var data []byte
			off := uint64(0)
			if f != nil && f.kind == "file" && len(f.data) > 0 {
				off = uint64(rr.Intn(len(f.data)))
				data = f.data[off : int(off)+rr.Intn(len(f.data)-int(off)+1)]
				if rr.Chance(1, 3) {
					data = f.data[off:] // up to the end of the file
				}
			}
			honest := append([]byte{}, data...)
			if rr.Chance(1, 8) {
				honest = rr.Bytes(rr.Range(1, 6)) // a node whose bytes are not in the file
			}
			c := g.mkCid(honest)
			if rr.Chance(2, 3) {
				if rr.Chance(1, 3) { // through Filestore.Put (skipped when Has says the block is there)
					if af && !g.has(vh.Hex(c.Hash())) {
						g.refs[vh.Hex(c.Hash())] = &gref{name, off, uint64(len(honest))}
					}
					g.emit("%s %s %s %d %s", vh.Pick(rr, []string{"fsputn", "fsputnm"}), cidStr(c), name, off, vh.Hex(honest))
					return
				}
				if af {
					g.refs[vh.Hex(c.Hash())] = &gref{name, off, uint64(len(honest))}
					delete(g.bad, vh.Hex(c.Hash()))
				}
				g.emit("fput %s %s %d %s", cidStr(c), name, off, vh.Hex(honest))
			} else {
				rf := &gref{name, off, uint64(len(data))}
				switch rr.Intn(8) {
				case 0:
					rf.off += uint64(rr.Range(1, 60))
				case 1:
					rf.size += uint64(rr.Range(1, 60))
				case 2:
					rf.path = vh.Pick(rr, names)
				case 3:
					rf.off = 1<<63 + uint64(rr.Intn(5))
				case 4:
					rf.size = 0
				}
				g.refs[vh.Hex(c.Hash())] = rf
				delete(g.bad, vh.Hex(c.Hash()))
				g.emit("ref %s %s %d %d", vh.Hex(c.Hash()), rf.path, rf.off, rf.size)
			}
		}
		for j, m := 0, rr.Range(1, 4); j < m; j++ {
			newRef()
		}
		steps := rr.Range(3, 25)
		if tier == "thorough" && rr.Chance(1, 8) {
			steps = rr.Range(25, 80)
		}
		for j := 0; j < steps; j++ {
			switch k := rr.Intn(100); {
			case k < 32:
				g.get()
			case k < 40 && len(g.cids) > 0: // the unverified queries and the Filestore's own Put/Delete/AllKeysChan
				c := vh.Pick(rr, g.cids)
				m := vh.Hex(c.Hash())
				switch q := rr.Intn(10); {
				case q < 6:
					g.emit("%s %s", vh.Pick(rr, []string{"fmhas", "fmsize", "fshas", "fssize"}), cidStr(c))
				case q == 6:
					delete(g.refs, m)
					delete(g.bad, m)
					delete(g.inner, m)
					g.emit("fsdel %s", cidStr(c))
				case q == 7:
					d := rr.Bytes(rr.Intn(10))
					if !g.has(m) {
						g.inner[m] = d
					}
					g.emit("%s %s %s", vh.Pick(rr, []string{"fsput", "fsputm"}), cidStr(c), vh.Hex(d))
				default:
					g.emit("fskeys")
				}
			case k < 48: // single-byte flip
				name := vh.Pick(rr, names[:3])
				if f := g.files[name]; f != nil && f.kind == "file" && len(f.data) > 0 {
					d := append([]byte{}, f.data...)
					d[rr.Intn(len(d))] ^= byte(1 << rr.Intn(8))
					writeFile(name, d)
				}
			case k < 54: // truncation
				name := vh.Pick(rr, names[:3])
				if f := g.files[name]; f != nil && f.kind == "file" {
					cut := rr.Intn(len(f.data) + 1)
					z := len(f.data)
					for z > 0 && f.data[z-1] == 0 {
						z--
					}
					if z < len(f.data) && rr.Bool() { // cut inside the trailing run of zeros
						cut = rr.Range(z, len(f.data)-1)
					}
					writeFile(name, append([]byte{}, f.data[:cut]...))
				}
			case k < 58: // extension
				name := vh.Pick(rr, names[:3])
				if f := g.files[name]; f != nil && f.kind == "file" {
					writeFile(name, append(append([]byte{}, f.data...), rr.Bytes(rr.Range(1, 9))...))
				}
			case k < 62:
				writeFile(vh.Pick(rr, names[:3]), content())
			case k < 67:
				name := vh.Pick(rr, names[:3])
				delete(g.files, name)
				g.emit("frm %s", name)
			case k < 70:
				name := vh.Pick(rr, names[:3])
				g.files[name] = &gfile{kind: "dir"}
				g.emit("fdir %s", name)
			case k < 76:
				newRef()
			case k < 79 && len(g.cids) > 0:
				m := vh.Hex(vh.Pick(rr, g.cids).Hash())
				if rr.Bool() {
					delete(g.refs, m)
					delete(g.bad, m)
					g.emit("refdel %s", m)
				} else {
					delete(g.refs, m)
					g.bad[m] = true
					g.emit("refbad %s", m)
				}
			case k < 84:
				setURL(vh.Pick(rr, unames))
			case k < 96 && len(g.cids) > 0: // content of the plain blockstore: honest, corrupted, truncated, extended
				c := vh.Pick(rr, g.cids)
				m := vh.Hex(c.Hash())
				var d []byte
				if old, ok := g.inner[m]; ok && rr.Chance(2, 3) {
					d = append([]byte{}, old...)
					switch rr.Intn(3) {
					case 0:
						if len(d) > 0 {
							d[rr.Intn(len(d))] ^= byte(1 << rr.Intn(8))
						}
					case 1:
						d = d[:rr.Intn(len(d)+1)]
					default:
						d = append(d, rr.Bytes(rr.Range(1, 4))...)
					}
				} else if rf := g.refs[m]; rf != nil && len(g.regions(rf)) > 0 {
					d = g.regions(rf)[0]
				} else {
					d = rr.Bytes(rr.Intn(12))
				}
				g.inner[m] = d
				g.emit("vput %s %s", m, vh.Hex(d))
			case len(g.cids) > 0:
				m := vh.Hex(vh.Pick(rr, g.cids).Hash())
				delete(g.inner, m)
				g.emit("vdel %s", m)
			}
		}
		for j := 0; j < 3; j++ {
			g.get()
		}
		// back-to-back reads of every reference (similar sizes share a buffer size class), twice
		for round := 0; round < 2; round++ {
			for _, c := range g.cids {
				if rf := g.refs[vh.Hex(c.Hash())]; rf != nil {
					for _, reg := range g.regions(rf) {
						g.h(cid.NewCidV1(cid.Raw, c.Hash()), reg)
					}
					g.emit("fmget %s", cidStr(c))
				}
			}
		}
		// IsURL on boundary strings (exactly 7/8 characters, wrong scheme, upper case, ...)
		g.emit("isurl %s", vh.Hex([]byte(vh.Pick(rr, []string{"http://", "http://a", "https://", "https://a", "http:/a/b", "httpx://aa",
			"h", "HTTP://a.b", "http:///", "https:/x/yz", "httpss://a", "ftp://abcde", "http//abcd", "https//abcd", "a.bin",
			"http:", "https:///", "http://" + string(rr.Bytes(3))}))))
		emit(vh.Case{ID: strconv.Itoa(i), Ops: g.ops})
	}
}

func b2i(b bool) int {
	if b {
		return 1
	}
	return 0
}

// ---------------------------------------------------------------- HTTP world

type urlEnt struct {
	kind    string
	status  int
	content []byte
}

var (
	srvOnce sync.Once
	srv     *httptest.Server
	srvMu   sync.Mutex
	srvTab  = map[string]urlEnt{}
)

func handler(w http.ResponseWriter, r *http.Request) {
	srvMu.Lock()
	e, ok := srvTab[r.URL.Path]
	srvMu.Unlock()
	switch {
	case !ok:
		w.WriteHeader(404)
	case e.kind == "down":
		if hj, ok := w.(http.Hijacker); ok {
			if c, _, err := hj.Hijack(); err == nil {
				c.Close()
			}
		}
	case e.kind == "status":
		w.WriteHeader(e.status)
	case e.kind == "full":
		w.Header().Set("Content-Length", strconv.Itoa(len(e.content)))
		w.WriteHeader(200)
		w.Write(e.content)
	default: // range
		var a, b uint64
		if _, err := fmt.Sscanf(r.Header.Get("Range"), "bytes=%d-%d", &a, &b); err != nil {
			w.WriteHeader(400)
			return
		}
		n := uint64(len(e.content))
		if a >= n || b < a {
			w.WriteHeader(416)
			return
		}
		if b > n-1 {
			b = n - 1
		}
		body := e.content[a : b+1]
		w.Header().Set("Content-Length", strconv.Itoa(len(body)))
		w.WriteHeader(206)
		w.Write(body)
	}
}

// realURL maps the symbolic URL of the op lines to the test server (https is served over http:
// only IsURL sees the difference, the model does not look at the scheme either)
func realURL(p string) string {
	for _, pre := range []string{srvPrefix, "https://srv/"} {
		if strings.HasPrefix(p, pre) {
			return srv.URL + "/" + strings.TrimPrefix(p, pre)
		}
	}
	return p
}

// ---------------------------------------------------------------- executor

type fakeNode struct {
	*dag.RawNode
	c cid.Cid
}

func (f fakeNode) Cid() cid.Cid { return f.c }

func outOf(b blocks.Block, err error) string {
	var cre *filestore.CorruptReferenceError
	switch {
	case err == nil:
		return "ok:" + vh.Hex(b.RawData())
	case ipld.IsNotFound(err):
		return "notfound"
	case errors.Is(err, blockstore.ErrHashMismatch):
		return "mismatch"
	case errors.As(err, &cre):
		if cre.Error() == "" {
			return "error"
		}
		switch cre.Code {
		case filestore.StatusFileNotFound:
			return "filenotfound"
		case filestore.StatusFileChanged:
			return "filechanged"
		default:
			return "fileerror"
		}
	case errors.Is(err, filestore.ErrFilestoreNotEnabled), errors.Is(err, filestore.ErrUrlstoreNotEnabled):
		return "notenabled"
	default:
		return "error"
	}
}

type putInfo struct { // what the monitor remembers about a file reference created through Put
	path string
	off  uint64
	data []byte
}

func exec(c vh.Case, o *vh.Out) {
	srvOnce.Do(func() { srv = httptest.NewServer(http.HandlerFunc(handler)) })
	ctx := context.Background()
	root, err := os.MkdirTemp("", "verif-c03-")
	if err != nil {
		panic(err)
	}
	defer os.RemoveAll(root)
	srvMu.Lock()
	srvTab = map[string]urlEnt{}
	srvMu.Unlock()

	var mds *ds.MapDatastore
	var inner blockstore.Blockstore
	var fm *filestore.FileManager
	var fst *filestore.Filestore
	var allowFiles bool
	reader := "std"
	honestPuts := map[string]*putInfo{} // multihash -> info, only while the reference is the one Put wrote
	// every block a read returned is retained for the rest of the case together with a private copy of
	// its bytes at return time: a returned block is a value, no later operation may change it
	type held struct {
		op   string
		blk  blocks.Block
		snap []byte
	}
	var retained []held
	checkRetained := func(when string) {
		for i, h := range retained {
			if !bytes.Equal(h.blk.RawData(), h.snap) {
				o.Fail("returned-block-mutated-later", "block returned by %q changed after %s: was %x, now %x", h.op, when, h.snap, h.blk.RawData())
				retained[i].snap = append([]byte{}, h.blk.RawData()...) // report each change once
			}
		}
	}
	defer checkRetained("the end of the case")
	urlRefs := map[string]string{}  // multihash -> symbolic URL of a raw URL reference
	urlKinds := map[string]urlEnt{} // symbolic URL -> behaviour of the server
	refKey := func(m []byte) ds.Key { return filestore.FilestorePrefix.Child(dshelp.MultihashToDsKey(m)) }

	for _, line := range c.Ops {
		f := strings.Fields(line)
		switch f[0] {
		case "cfg":
			mds = ds.NewMapDatastore()
			inner = blockstore.NewBlockstore(mds, blockstore.WriteThrough(true))
			var opts []filestore.Option
			if f[3] == "mmap" {
				opts = append(opts, filestore.WithMMapReader())
			}
			fm = filestore.NewFileManager(mds, root, opts...)
			fm.AllowFiles, fm.AllowUrls = f[1] == "1", f[2] == "1"
			allowFiles = fm.AllowFiles
			reader = f[3]
			fst = filestore.NewFilestore(inner, fm, nil)
			if fst.FileManager() != fm || fst.MainBlockstore() != inner {
				o.Fail("filestore-accessors", "FileManager()/MainBlockstore() do not return the constructor arguments")
			}
			o.Kind("reader-" + f[3])
			o.Emit("ok")
		case "h":
			o.Emit("ok")
		case "vput":
			b, _ := blocks.NewBlockWithCid(vh.UnHex(f[2]), cid.NewCidV1(cid.Raw, vh.UnHex(f[1])))
			emitErr(o, inner.Put(ctx, b))
		case "vdel":
			emitErr(o, inner.DeleteBlock(ctx, cid.NewCidV1(cid.Raw, vh.UnHex(f[1]))))
		case "fwrite":
			p := filepath.Join(root, f[1])
			data := vh.UnHex(f[2])
			if st, err := os.Stat(p); err == nil && st.Mode().IsRegular() && st.Size() == int64(len(data)) {
				// same-length rewrite: in place (same inode) and with the old mtime put back, like
				// rsync -t / cp -p / a write within one timestamp tick - file metadata says "unchanged"
				err := os.WriteFile(p, data, 0o644)
				if err == nil {
					err = os.Chtimes(p, st.ModTime(), st.ModTime())
				}
				o.Kind("fwrite-inplace-mtime-kept")
				emitErr(o, err)
				continue
			}
			os.RemoveAll(p)
			emitErr(o, os.WriteFile(p, data, 0o644))
		case "frm":
			emitErr(o, os.RemoveAll(filepath.Join(root, f[1])))
		case "fdir":
			p := filepath.Join(root, f[1])
			os.RemoveAll(p)
			emitErr(o, os.Mkdir(p, 0o755))
		case "url":
			st, _ := strconv.Atoi(f[3])
			u := realURL(f[1])
			srvMu.Lock()
			srvTab[strings.TrimPrefix(u, srv.URL)] = urlEnt{f[2], st, vh.UnHex(f[4])}
			srvMu.Unlock()
			urlKinds[f[1]] = urlEnt{f[2], st, nil}
			o.Kind("url-" + f[2])
			o.Emit("ok")
		case "ref":
			off, _ := strconv.ParseUint(f[3], 10, 64)
			size, _ := strconv.ParseUint(f[4], 10, 64)
			p := realURL(f[2])
			val, _ := proto.Marshal(&pb.DataObj{FilePath: &p, Offset: &off, Size: &size})
			delete(honestPuts, f[1])
			delete(urlRefs, f[1])
			if strings.HasPrefix(f[2], "http") {
				urlRefs[f[1]] = f[2]
				o.Kind("ref-url")
			} else {
				o.Kind("ref-raw")
			}
			emitErr(o, mds.Put(ctx, refKey(vh.UnHex(f[1])), val))
		case "refbad":
			delete(honestPuts, f[1])
			delete(urlRefs, f[1])
			emitErr(o, mds.Put(ctx, refKey(vh.UnHex(f[1])), []byte{0xff, 0xff, 0xff}))
		case "refdel":
			delete(honestPuts, f[1])
			delete(urlRefs, f[1])
			emitErr(o, mds.Delete(ctx, refKey(vh.UnHex(f[1]))))
		case "fput":
			k := parseCid(f[1])
			off, _ := strconv.ParseUint(f[3], 10, 64)
			data := vh.UnHex(f[4])
			rn, _ := dag.NewRawNodeWPrefix(data, cid.V1Builder{Codec: cid.Raw, MhType: mh.SHA2_256})
			node := &posinfo.FilestoreNode{Node: fakeNode{rn, k}, PosInfo: &posinfo.PosInfo{FullPath: filepath.Join(root, f[2]), Offset: off}}
			err := fm.Put(ctx, node)
			o.Kind("fput")
			switch {
			case err == nil:
				m := vh.Hex(k.Hash())
				delete(honestPuts, m)
				delete(urlRefs, m)
				if verdict(cid.NewCidV1(cid.Raw, k.Hash()), data) == "eq" {
					honestPuts[m] = &putInfo{f[2], off, data}
				}
				o.Emit("ok")
			case errors.Is(err, filestore.ErrFilestoreNotEnabled):
				o.Emit("notenabled")
			default:
				o.Emit("error")
			}
		case "isurl":
			o.Kind("isurl")
			o.Emit("%v", filestore.IsURL(string(vh.UnHex(f[1]))))
		case "fmhas", "fshas":
			var b bool
			var err error
			if f[0] == "fmhas" {
				b, err = fm.Has(ctx, parseCid(f[1]))
			} else {
				b, err = fst.Has(ctx, parseCid(f[1]))
			}
			o.Kind(f[0])
			if err != nil {
				o.Emit("error")
			} else {
				o.Emit("%v", b)
			}
		case "fmsize", "fssize":
			var n int
			var err error
			if f[0] == "fmsize" {
				n, err = fm.GetSize(ctx, parseCid(f[1]))
			} else {
				n, err = fst.GetSize(ctx, parseCid(f[1]))
			}
			o.Kind(f[0])
			switch {
			case err == nil:
				o.Emit("size %d", n)
			case ipld.IsNotFound(err):
				o.Emit("notfound")
			default:
				o.Emit("error")
			}
		case "fsdel":
			delete(honestPuts, vh.Hex(parseCid(f[1]).Hash()))
			delete(urlRefs, vh.Hex(parseCid(f[1]).Hash()))
			o.Kind("fsdel")
			emitErr(o, fst.DeleteBlock(ctx, parseCid(f[1])))
		case "fsput", "fsputm":
			b, _ := blocks.NewBlockWithCid(vh.UnHex(f[2]), parseCid(f[1]))
			o.Kind(f[0])
			if f[0] == "fsputm" { // the same through PutMany
				emitErr(o, fst.PutMany(ctx, []blocks.Block{b}))
			} else {
				emitErr(o, fst.Put(ctx, b))
			}
		case "fsputn", "fsputnm":
			k := parseCid(f[1])
			off, _ := strconv.ParseUint(f[3], 10, 64)
			data := vh.UnHex(f[4])
			rn, _ := dag.NewRawNodeWPrefix(data, cid.V1Builder{Codec: cid.Raw, MhType: mh.SHA2_256})
			node := &posinfo.FilestoreNode{Node: fakeNode{rn, k}, PosInfo: &posinfo.PosInfo{FullPath: filepath.Join(root, f[2]), Offset: off}}
			had, _ := fst.Has(ctx, k)
			var err error
			if f[0] == "fsputnm" {
				err = fst.PutMany(ctx, []blocks.Block{node})
			} else {
				err = fst.Put(ctx, node)
			}
			o.Kind(f[0])
			switch {
			case err == nil:
				m := vh.Hex(k.Hash())
				if !had {
					delete(honestPuts, m)
					delete(urlRefs, m)
					if verdict(cid.NewCidV1(cid.Raw, k.Hash()), data) == "eq" {
						honestPuts[m] = &putInfo{f[2], off, data}
					}
				}
				o.Emit("ok")
			case errors.Is(err, filestore.ErrFilestoreNotEnabled):
				o.Emit("notenabled")
			default:
				o.Emit("error")
			}
		case "fskeys":
			ch, err := fst.AllKeysChan(ctx)
			if err != nil {
				o.Emit("error")
				continue
			}
			var ks []string
			for k := range ch {
				ks = append(ks, vh.Hex(k.Hash()))
			}
			sort.Strings(ks)
			o.Kind("fskeys")
			// the validating wrapper enumerates exactly what its inner blockstore enumerates
			vch, verrFn, verr := (&blockstore.ValidatingBlockstore{Blockstore: inner}).AllKeysChanWithErr(ctx)
			ich, _ := inner.AllKeysChan(ctx)
			if verr == nil {
				var a, b []string
				for k := range vch {
					a = append(a, k.String())
				}
				for k := range ich {
					b = append(b, k.String())
				}
				sort.Strings(a)
				sort.Strings(b)
				if verrFn() != nil || strings.Join(a, ",") != strings.Join(b, ",") {
					o.Fail("validating-allkeys", "ValidatingBlockstore.AllKeysChanWithErr = %v, inner %v", a, b)
				}
			}
			o.Emit("keys %s", strings.Join(ks, ","))
		case "vget", "fmget", "fsget":
			k := parseCid(f[1])
			var b blocks.Block
			var err error
			switch f[0] {
			case "vget":
				b, err = (&blockstore.ValidatingBlockstore{Blockstore: inner}).Get(ctx, k)
			case "fmget":
				b, err = fm.Get(ctx, k)
			default:
				b, err = fst.Get(ctx, k)
			}
			res := outOf(b, err)
			checkRetained(line)
			if err == nil {
				retained = append(retained, held{line, b, append([]byte{}, b.RawData()...)})
			}
			o.Kind(f[0] + "-" + strings.SplitN(res, ":", 2)[0])
			if _, isURL := urlRefs[vh.Hex(k.Hash())]; isURL && f[0] != "vget" {
				o.Kind("url-ref-" + strings.SplitN(res, ":", 2)[0])
			} else if f[0] == "fmget" {
				o.Kind(reader + "-file-ref-" + strings.SplitN(res, ":", 2)[0])
			}
			fromInner := false
			if f[0] == "fsget" {
				if has, _ := inner.Has(ctx, k); has {
					fromInner = true // a plain blockstore answered: outside the property (not a reference)
				}
			}
			// monitor 1 (soundness): returned bytes hash to the requested multihash / CID
			if err == nil && !fromInner {
				if !b.Cid().Equals(k) {
					o.Fail("wrong-cid-returned", "%s %s returned block %s", f[0], f[1], b.Cid())
				}
				chk := k
				if f[0] != "vget" {
					chk = cid.NewCidV1(cid.Raw, k.Hash())
				}
				if verdict(chk, b.RawData()) != "eq" {
					o.Fail("unverified-bytes-returned", "%s %s returned %x which does not hash to it", f[0], f[1], b.RawData())
				}
				o.Nontrivial()
			}
			// monitor 2 (filestore: changed / shrunk / vanished files are reported as corrupt; intact ones are served)
			if pi := honestPuts[vh.Hex(k.Hash())]; pi != nil && f[0] != "vget" && !fromInner && allowFiles {
				cur, rerr := os.ReadFile(filepath.Join(root, pi.path))
				end := pi.off + uint64(len(pi.data))
				switch {
				case rerr != nil && os.IsNotExist(rerr):
					if res != "filenotfound" {
						o.Fail("vanished-file-not-reported", "%s: file removed, got %s", line, res)
					}
				case rerr != nil || end > uint64(len(cur)):
					st, _ := os.Stat(filepath.Join(root, pi.path))
					regular := st != nil && st.Mode().IsRegular()
					if len(pi.data) > 0 && res != "filechanged" && (res != "fileerror" || regular && reader == "std") {
						o.Fail("shrunk-file-not-reported", "%s: region no longer readable, got %s", line, res)
					}
				case !bytes.Equal(cur[pi.off:end], pi.data):
					if res != "filechanged" {
						o.Fail("changed-file-not-reported", "%s: region changed, got %s", line, res)
					}
				default:
					if res != "ok:"+vh.Hex(pi.data) {
						o.Fail("intact-reference-not-served", "%s: region intact, got %s", line, res)
					}
				}
			}
			// monitor 3 (URL references): a server that fails or answers a non-200/206 status is reported
			if u, ok := urlRefs[vh.Hex(k.Hash())]; ok && f[0] != "vget" && !fromInner && fm.AllowUrls {
				if e, ok := urlKinds[u]; ok && (e.kind == "down" || e.kind == "status") && res != "fileerror" {
					o.Fail("url-failure-not-reported", "%s: server %s/%d, got %s", line, e.kind, e.status, res)
				}
			}
			o.Emit("%s", res)
		default:
			o.Emit("bad-op")
		}
	}
}

func emitErr(o *vh.Out, err error) {
	if err != nil {
		o.Emit("error")
	} else {
		o.Emit("ok")
	}
}

func main() {
	logging.SetLogLevel("*", "fatal")
	vh.Main(vh.Config{Gen: gen, Exec: exec})
}
