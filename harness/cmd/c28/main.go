// C28 harness: drives the real path.NewPath / NewPathFromURI / Join / StringToSegments and the
// real ipns.Name conversions.
package main

import (
	"bytes"
	"encoding/json"
	"errors"
	"regexp"
	"strconv"
	"strings"

	"github.com/ipfs/boxo/ipns"
	"github.com/ipfs/boxo/path"
	"github.com/ipfs/go-cid"
	ic "github.com/libp2p/go-libp2p/core/crypto"
	"github.com/libp2p/go-libp2p/core/peer"
	mb "github.com/multiformats/go-multibase"
	mh "github.com/multiformats/go-multihash"

	"verifharness/vh"
)

func h(s string) string { return vh.Hex([]byte(s)) }
func hl(xs []string) string {
	if len(xs) == 0 {
		return "="
	}
	ys := make([]string, len(xs))
	for i, x := range xs {
		ys[i] = h(x)
	}
	return strings.Join(ys, ",")
}
func unhl(s string) []string {
	if s == "=" {
		return nil
	}
	var out []string
	for _, x := range strings.Split(s, ",") {
		out = append(out, string(vh.UnHex(x)))
	}
	return out
}

// ---- pools (deterministic in the seed)

func cidStrings(r *vh.Rand) []string {
	data := r.Bytes(r.Range(1, 40))
	sum, _ := mh.Sum(data, mh.SHA2_256, -1)
	v0 := cid.NewCidV0(sum)
	raw := cid.NewCidV1(cid.Raw, sum)
	pb := cid.NewCidV1(cid.DagProtobuf, sum)
	idh, _ := mh.Sum(data[:min(len(data), 8)], mh.IDENTITY, -1)
	idc := cid.NewCidV1(cid.Raw, idh)
	out := []string{v0.String(), raw.String(), pb.String(), idc.String()}
	for _, b := range []mb.Encoding{mb.Base36, mb.Base58BTC, mb.Base32Upper, mb.Base64url, mb.Base16} {
		s, err := raw.StringOfBase(b)
		if err == nil {
			out = append(out, s)
		}
	}
	return out
}

type rdr struct{ r *vh.Rand }

func (x rdr) Read(p []byte) (int, error) { copy(p, x.r.Bytes(len(p))); return len(p), nil }

func peerID(r *vh.Rand) peer.ID {
	switch r.Intn(3) {
	case 0:
		_, pub, err := ic.GenerateEd25519Key(rdr{r})
		if err == nil {
			if id, err := peer.IDFromPublicKey(pub); err == nil {
				return id
			}
		}
	case 1:
		_, pub, err := ic.GenerateSecp256k1Key(rdr{r})
		if err == nil {
			if id, err := peer.IDFromPublicKey(pub); err == nil {
				return id
			}
		}
	}
	// an RSA peer ID is the sha2-256 multihash of the serialized public key (longer than 42 bytes)
	sum, _ := mh.Sum(r.Bytes(294), mh.SHA2_256, -1)
	return peer.ID(sum)
}

func peerStrings(r *vh.Rand) []string {
	id := peerID(r)
	c := peer.ToCid(id)
	out := []string{id.String(), c.String()}
	for _, b := range []mb.Encoding{mb.Base36, mb.Base58BTC, mb.Base32Upper, mb.Base64url} {
		if s, err := c.StringOfBase(b); err == nil {
			out = append(out, s)
		}
	}
	return out
}

var nsFrags = []string{"ipfs", "ipns", "ipld", "ipfs", "ipns", "IPFS", "ipfsx", "ipn", "", ".", "..", "http"}
var restFrags = []string{"a", "b.txt", "dir", ".", "..", "..", "", "...", "\xc3\xbc", "%2f", "%2e%2e", "a b", "ipfs", "..a", "a..", "\xff", "?q=1", "#frag"}
var dnsFrags = []string{"example.com", "en.wikipedia-on-ipfs.org", "a", "_dnslink.x.y"}

func mutate(r *vh.Rand, s string) string {
	if len(s) == 0 {
		return s
	}
	switch r.Intn(4) {
	case 0:
		return s[:r.Intn(len(s))]
	case 1:
		i := r.Intn(len(s))
		return s[:i] + "x" + s[i+1:]
	case 2:
		return strings.ToUpper(s)
	default:
		return s + "0"
	}
}

func randRoot(r *vh.Rand) string {
	switch r.Intn(8) {
	case 0, 1, 2:
		return vh.Pick(r, cidStrings(r))
	case 3, 4:
		return vh.Pick(r, peerStrings(r))
	case 5:
		return vh.Pick(r, dnsFrags)
	case 6:
		return mutate(r, vh.Pick(r, cidStrings(r)))
	default:
		return vh.Pick(r, restFrags)
	}
}

func sep(r *vh.Rand) string {
	switch r.Intn(10) {
	case 0:
		return "//"
	case 1:
		return "/./"
	default:
		return "/"
	}
}

// the part after the namespace: root + remaining elements, hostile shapes included
func randRest(r *vh.Rand) string {
	var sb strings.Builder
	sb.WriteString(randRoot(r))
	for i, n := 0, r.Intn(5); i < n; i++ {
		sb.WriteString(sep(r))
		sb.WriteString(vh.Pick(r, restFrags))
	}
	if r.Chance(1, 4) {
		sb.WriteString(vh.Pick(r, []string{"/", "//", "/.", "/..", "/./"}))
	}
	return sb.String()
}

func randPathStr(r *vh.Rand) string {
	lead := "/"
	switch r.Intn(12) {
	case 0:
		lead = ""
	case 1:
		lead = "//"
	case 2:
		lead = "/./"
	case 3:
		lead = "/../"
	}
	if r.Chance(1, 15) {
		return lead + vh.Pick(r, nsFrags)
	}
	if r.Chance(1, 20) {
		return lead + randRoot(r) + "/../" + vh.Pick(r, nsFrags) + sep(r) + randRest(r)
	}
	return lead + vh.Pick(r, nsFrags) + sep(r) + randRest(r)
}

func randCase(r *vh.Rand, s string) string {
	b := []byte(s)
	for i := range b {
		if r.Chance(1, 3) && b[i] >= 'a' && b[i] <= 'z' {
			b[i] -= 32
		}
	}
	return string(b)
}

func randURI(r *vh.Rand) string {
	if r.Chance(1, 8) {
		return randPathStr(r)
	}
	scheme := randCase(r, vh.Pick(r, []string{"ipfs", "ipns", "ipld", "ipfs", "ipns", "ipf", "ipfss", "http", ""}))
	return scheme + vh.Pick(r, []string{"://", "://", ":", ":/", ":///", "//", ":"}) + randRest(r)
}

// table of the '/'- or ':'-separated pieces (of all given strings) that the real CID decoder accepts
func cidTable(strs ...string) string {
	seen := map[string]bool{}
	var out []string
	for _, s := range strs {
		for _, p := range strings.FieldsFunc(s, func(c rune) bool { return c == '/' || c == ':' }) {
			if p == "" || seen[p] {
				continue
			}
			seen[p] = true
			if _, err := cid.Decode(p); err == nil {
				out = append(out, p)
			}
		}
	}
	return hl(out)
}

// what go-multibase returns for the whole string when its prefix is not one the Lean model covers
// (base36 k/K, base58btc z, raw base58 Qm…/1…); "none" when the model needs no help
func extraObs(t string) string {
	if t == "" || strings.HasPrefix(t, "Qm") || strings.HasPrefix(t, "1") || len(t) < 2 {
		return "none"
	}
	switch t[0] {
	case 'k', 'K', 'z':
		return "none"
	}
	_, data, err := mb.Decode(t)
	if err != nil {
		return "err"
	}
	return h(string(data))
}

func nameOp(s string) string {
	t := strings.TrimPrefix(s, "/ipns/")
	pid, err := peer.Decode(t)
	if err != nil {
		return "name " + h(s) + " err -"
	}
	b36, err := peer.ToCid(pid).StringOfBase(mb.Base36)
	if err != nil {
		return "name " + h(s) + " err -"
	}
	return "name " + h(s) + " " + h(string(pid)) + " " + h(b36)
}

func gen(r *vh.Rand, tier string, n int, emit func(vh.Case)) {
	for i := 0; i < n; i++ {
		c := vh.Case{ID: strconv.Itoa(i)}
		for j, m := 0, r.Range(3, 9); j < m; j++ {
			switch r.Intn(12) {
			case 0:
				c.Ops = append(c.Ops, "segs "+h(randPathStr(r)))
			case 1:
				var segs []string
				for k, kk := 0, r.Intn(4); k < kk; k++ {
					segs = append(segs, vh.Pick(r, restFrags))
				}
				c.Ops = append(c.Ops, "s2s "+hl(segs))
			case 2, 3, 4:
				s := randPathStr(r)
				c.Ops = append(c.Ops, "path "+h(s)+" "+cidTable(s))
			case 5, 6:
				s := randURI(r)
				c.Ops = append(c.Ops, "uri "+h(s)+" "+cidTable(s), "norm "+h(s))
			case 7:
				s := randPathStr(r)
				var extra []string
				for k, kk := 0, r.Intn(4); k < kk; k++ {
					if r.Chance(1, 6) {
						extra = append(extra, vh.Pick(r, restFrags)+"/"+vh.Pick(r, restFrags))
					} else {
						extra = append(extra, vh.Pick(r, restFrags))
					}
				}
				c.Ops = append(c.Ops, "pjoin "+h(s)+" "+cidTable(append([]string{s}, extra...)...)+" "+hl(extra))
			case 8, 9:
				s := vh.Pick(r, peerStrings(r))
				switch r.Intn(6) {
				case 0:
					s = "/ipns/" + s
				case 1:
					s = mutate(r, s)
				case 2:
					s = vh.Pick(r, cidStrings(r))
				case 3:
					s = "/ipns//ipns/" + s
				}
				c.Ops = append(c.Ops, nameOp(s), "cname "+h(s)+" "+extraObs(strings.TrimPrefix(s, "/ipns/")))
				if r.Bool() {
					t := strings.TrimPrefix(s, "/ipns/")
					if r.Chance(1, 4) {
						t = mutate(r, t)
					}
					c.Ops = append(c.Ops, "pdec "+h(t)+" "+extraObs(t))
				}
			case 10:
				id := peerID(r)
				d := "/ipns/" + string(id)
				switch r.Intn(5) {
				case 0:
					d = string(id)
				case 1:
					d = d[:len(d)-1]
				case 2:
					d = "/ipns/" + string(r.Bytes(r.Intn(40)))
				case 3:
					d = "/ipns" + string(id)
				}
				v := "0"
				if _, err := mh.Cast([]byte(strings.TrimPrefix(d, "/ipns/"))); err == nil {
					v = "1"
				}
				c.Ops = append(c.Ops, "rkey "+h(d)+" "+v, "rkeyc "+h(d))
				if r.Bool() {
					c.Ops = append(c.Ops, "b36 "+h(string(id)))
				}
			default:
				s := "/" + vh.Pick(r, []string{"ipfs", "ipld", "ipns"}) + "/" + vh.Pick(r, cidStrings(r)) + sep(r) + vh.Pick(r, restFrags)
				c.Ops = append(c.Ops, "path "+h(s)+" "+cidTable(s))
			}
		}
		emit(c)
	}
}

func showPath(p path.Path, err error) string {
	if err != nil {
		switch {
		case errors.Is(err, path.ErrInsufficientComponents):
			return "err insufficient"
		case errors.Is(err, path.ErrUnknownNamespace):
			return "err ns"
		default:
			return "err cid"
		}
	}
	mut := 0
	if p.Mutable() {
		mut = 1
	}
	root := "none"
	if ip, ok := p.(path.ImmutablePath); ok {
		// the model's CID value is the argument string of the decoder
		segs := p.Segments()
		root = h(segs[1])
		if c, err := cid.Decode(segs[1]); err != nil || !c.Equals(ip.RootCid()) {
			root = "rootcid-mismatch"
		}
	}
	return "ok " + h(p.Namespace()) + " " + strconv.Itoa(mut) + " " + h(p.String()) + " " + hl(p.Segments()) + " " + root
}

func samePath(a, b path.Path) bool {
	if a.String() != b.String() || a.Namespace() != b.Namespace() || a.Mutable() != b.Mutable() {
		return false
	}
	sa, sb := a.Segments(), b.Segments()
	if len(sa) != len(sb) {
		return false
	}
	for i := range sa {
		if sa[i] != sb[i] {
			return false
		}
	}
	ia, oka := a.(path.ImmutablePath)
	ib, okb := b.(path.ImmutablePath)
	if oka != okb {
		return false
	}
	if oka && !ia.RootCid().Equals(ib.RootCid()) {
		return false
	}
	return true
}

// the property's own predicate on an accepted path
func monitorPath(o *vh.Out, what string, p path.Path) {
	p2, err := path.NewPath(p.String())
	if err != nil {
		o.Fail("reparse-rejected", "%s: printed form %q is rejected: %v", what, p.String(), err)
	} else if !samePath(p, p2) {
		o.Fail("reparse-differs", "%s: %q re-parses to %q", what, p.String(), p2.String())
	}
	for _, s := range strings.Split(p.String(), "/") {
		if s == "." || s == ".." {
			o.Fail("dot-segment", "%s: printed form %q has a dot segment", what, p.String())
		}
	}
	// NewImmutablePath / FromCid: the immutable view of an accepted path agrees with the parse
	if ip, err := path.NewImmutablePath(p); p.Mutable() == (err == nil) {
		o.Fail("immutable-view", "%s: %q mutable=%v NewImmutablePath err=%v", what, p.String(), p.Mutable(), err)
	} else if err == nil {
		if orig, ok := p.(path.ImmutablePath); !ok || !orig.RootCid().Equals(ip.RootCid()) || ip.String() != p.String() {
			o.Fail("immutable-view", "%s: %q", what, p.String())
		}
		fc := path.FromCid(ip.RootCid())
		if q, err := path.NewPath(fc.String()); err != nil || !samePath(fc, q) || fc.Namespace() != "ipfs" || !fc.RootCid().Equals(ip.RootCid()) {
			o.Fail("fromcid", "%s: FromCid(%s) = %q does not re-parse to itself", what, ip.RootCid(), fc.String())
		}
	}
	segs := p.Segments()
	if len(segs) < 2 || segs[0] != p.Namespace() {
		o.Fail("segments-shape", "%s: %q segments %q", what, p.String(), segs)
	}
	for _, s := range segs {
		if s == "" || s == "." || s == ".." || strings.Contains(s, "/") {
			o.Fail("dot-segment", "%s: segments %q", what, segs)
		}
	}
	if len(segs) > 2 {
		o.Nontrivial()
	}
}

var uriRe = regexp.MustCompile(`^(?i:(ipfs|ipns|ipld)):(?://)?`)

func exec(c vh.Case, o *vh.Out) {
	for _, line := range c.Ops {
		f := strings.Fields(line)
		switch {
		case f[0] == "segs" && len(f) == 2:
			o.Kind("segs")
			o.Emit("%s", hl(path.StringToSegments(string(vh.UnHex(f[1])))))
		case f[0] == "s2s" && len(f) == 2:
			o.Kind("s2s")
			o.Emit("%s", h(path.SegmentsToString(unhl(f[1])...)))
		case f[0] == "path" && len(f) == 3:
			s := string(vh.UnHex(f[1]))
			p, err := path.NewPath(s)
			out := showPath(p, err)
			o.Kind("path-" + strings.Fields(out)[0])
			if err == nil {
				if s != p.String() {
					o.Kind("path-cleaned")
				}
				monitorPath(o, "NewPath", p)
			} else {
				o.Kind("path-" + strings.ReplaceAll(out, " ", "-"))
			}
			o.Emit("%s", out)
		case f[0] == "uri" && len(f) == 3:
			s := string(vh.UnHex(f[1]))
			p, err := path.NewPathFromURI(s)
			out := showPath(p, err)
			if err == nil {
				monitorPath(o, "NewPathFromURI", p)
			}
			// URI form maps to the same path as the canonical form
			if m := uriRe.FindStringSubmatch(s); m != nil {
				o.Kind("uri-scheme")
				canon := "/" + strings.ToLower(m[1]) + "/" + s[len(m[0]):]
				p2, err2 := path.NewPath(canon)
				if (err == nil) != (err2 == nil) || (err == nil && !samePath(p, p2)) {
					o.Fail("uri-differs", "%q vs canonical %q: %v / %v", s, canon, err, err2)
				}
				if err == nil {
					o.Kind("uri-ok")
				}
			} else {
				p2, err2 := path.NewPath(s)
				if (err == nil) != (err2 == nil) || (err == nil && !samePath(p, p2)) {
					o.Fail("uri-non-uri-changed", "%q", s)
				}
			}
			o.Emit("%s", out)
		case f[0] == "norm" && len(f) == 2:
			// normalizeURIScheme is unexported: observed through NewPathFromURI only (model-only line)
			s := string(vh.UnHex(f[1]))
			canon := s
			if m := uriRe.FindStringSubmatch(s); m != nil {
				canon = "/" + strings.ToLower(m[1]) + "/" + s[len(m[0]):]
			}
			o.Emit("%s", h(canon))
		case f[0] == "pjoin" && len(f) == 4:
			s := string(vh.UnHex(f[1]))
			p, err := path.NewPath(s)
			if err != nil {
				o.Emit("base-%s", showPath(p, err))
				continue
			}
			extra := unhl(f[3])
			q, err := path.Join(p, extra...)
			if err == nil {
				o.Kind("join-ok")
				monitorPath(o, "Join", q)
			} else {
				o.Kind("join-err")
			}
			o.Emit("%s", showPath(q, err))
		case f[0] == "pdec" && len(f) == 3:
			pid, err := peer.Decode(string(vh.UnHex(f[1])))
			if err != nil {
				o.Kind("pdec-err")
				o.Emit("err")
			} else {
				o.Kind("pdec-ok")
				o.Emit("%s", h(string(pid)))
			}
		case f[0] == "b36" && len(f) == 2:
			s, err := peer.ToCid(peer.ID(vh.UnHex(f[1]))).StringOfBase(mb.Base36)
			if err != nil {
				o.Emit("err")
			} else {
				o.Kind("b36")
				o.Emit("%s", h(s))
			}
		case (f[0] == "name" && len(f) == 4) || (f[0] == "cname" && len(f) == 3):
			s := string(vh.UnHex(f[1]))
			n, err := ipns.NameFromString(s)
			if err != nil {
				o.Kind("name-err")
				o.Emit("err")
				continue
			}
			o.Kind("name-ok")
			str := n.String()
			rk := n.RoutingKey()
			n1, e1 := ipns.NameFromString(str)
			n2, e2 := ipns.NameFromString("/ipns/" + str)
			n3, e3 := ipns.NameFromCid(n.Cid())
			n4, e4 := ipns.NameFromRoutingKey(rk)
			n5 := ipns.NameFromPeer(n.Peer())
			bits := []bool{e1 == nil && n1.Equal(n), e2 == nil && n2.Equal(n), e3 == nil && n3.Equal(n), e4 == nil && n4.Equal(n), n5.Equal(n)}
			names := []string{"string", "nsstring", "cid", "routingkey", "peer"}
			bs := ""
			for i, b := range bits {
				if b {
					bs += "1"
				} else {
					bs += "0"
					o.Fail("name-roundtrip-"+names[i], "name from %q does not round-trip through its %s form", s, names[i])
				}
			}
			// codec laws assumed by c28_name_laws, checked on the real codecs
			if pid, err := peer.Decode(str); err != nil || string(pid) != string(n.Peer()) {
				o.Fail("codec-law-decode-encode", "peer.Decode(%q)", str)
			}
			if strings.HasPrefix(str, "/ipns/") || !strings.HasPrefix(str, "k") {
				o.Fail("codec-law-prefix", "%q", str)
			}
			if _, err := mh.Cast([]byte(n.Peer())); err != nil {
				o.Fail("codec-law-valid", "decoded peer id is not a multihash")
			}
			if !bytes.Equal(rk, append([]byte("/ipns/"), []byte(n.Peer())...)) {
				o.Fail("routing-key-shape", "%x", rk)
			}
			// JSON form = the string form
			if js, err := json.Marshal(n); err != nil || string(js) != strconv.Quote(str) {
				o.Fail("name-roundtrip-json", "Marshal %q: %s %v", str, js, err)
			} else {
				var n6 ipns.Name
				if err := json.Unmarshal(js, &n6); err != nil || !n6.Equal(n) {
					o.Fail("name-roundtrip-json", "Unmarshal %s: %v", js, err)
				}
			}
			// AsPath: the name as a content path
			if ap := n.AsPath(); ap.String() != "/ipns/"+str {
				o.Fail("aspath", "%q", ap.String())
			}
			o.Nontrivial()
			o.Emit("ok %s %s %s rt=%s", h(string(n.Peer())), h(str), h(string(rk)), bs)
		case (f[0] == "rkey" && len(f) == 3) || (f[0] == "rkeyc" && len(f) == 2):
			d := vh.UnHex(f[1])
			n, err := ipns.NameFromRoutingKey(d)
			if err != nil {
				o.Kind("rkey-err")
				o.Emit("err")
				continue
			}
			o.Kind("rkey-ok")
			if !bytes.Equal(n.RoutingKey(), d) {
				o.Fail("name-roundtrip-routingkey", "%x", d)
			}
			o.Emit("ok %s", h(string(n.Peer())))
		default:
			o.Emit("bad-op")
		}
	}
}

func main() { vh.Main(vh.Config{Gen: gen, Exec: exec}) }
