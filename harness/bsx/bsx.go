// Package bsx is the part of the C04 / C05 harnesses that drives the REAL block service
// (blockservice.New over the real blockstore on a map datastore) with a recording blockstore
// wrapper and a scripted (adversarial) exchange, and prints the canonical line protocol.
//
// Tokens:   cid  = <codec>.<code>.<len>.<dig>        codec 0 = CIDv0
//
//	blk  = <cid>=<data>
//
// Ops (one output line each):
//
//	cfg <checkFirst 0|1> <ex 0|1|2> <allowlist…>       new service + empty store; ex: 0 nil, 1 plain, 2 session exchange
//	    allowlist (prefix notation): dflt | plain <set> | over <set> <allowlist…>;  set: - | code=0|1,code=0|1,…
//	vrow <code>                                         ValidateCid for digest lengths 0..256 -> 257 letters o|i|s|l
//	add <blk>            addmany <blk>*                 AddBlock / AddBlocks
//	get <mode d|s|c> <cid> <ans: err|blk> <nOk 0|1>     GetBlock directly / through NewSession / through ContextWithSession
//	getmany <mode> <nf: -|n> <cid>* | <err | blk*>      GetBlocks; after `|` the exchange's answer
//	putfail <k> <sticky 0|1> | putfail -               the k-th blockstore write call (Put / PutMany) from now fails
//	getfail <k> <sticky 0|1> | getfail -               the k-th blockstore.Get call from now fails (not "not found")
//	cancelget <mode> <k> <cid>* | <blk>*               GetBlocks, context cancelled after k received blocks (last op)
//	mode: d direct | s fresh NewSession | c fresh ContextWithSession | S<k> / C<k> persistent session / context
//	del <cid>      peek <cid>                           DeleteBlock; blockstore.Get behind the service's back
package bsx

import (
	"bytes"
	"context"
	"crypto/sha256"
	"errors"
	"fmt"
	"strconv"
	"strings"
	"sync"

	"github.com/ipfs/boxo/blockservice"
	"github.com/ipfs/boxo/blockstore"
	"github.com/ipfs/boxo/exchange"
	"github.com/ipfs/boxo/verifcid"
	blocks "github.com/ipfs/go-block-format"
	"github.com/ipfs/go-cid"
	ds "github.com/ipfs/go-datastore"
	dssync "github.com/ipfs/go-datastore/sync"
	ipld "github.com/ipfs/go-ipld-format"
	logging "github.com/ipfs/go-log/v2"
	mh "github.com/multiformats/go-multihash"

	"verifharness/vh"
)

func init() { logging.SetLogLevel("*", "fatal") } // the block service logs every rejected CID

// ---------------------------------------------------------------- tokens

func DataBytes(d int) []byte { return []byte(fmt.Sprintf("data-%d", d)) }

func dataID(b []byte) string {
	s := string(b)
	if strings.HasPrefix(s, "data-") {
		return s[5:]
	}
	return "?" + vh.Hex(b)
}

// Digest of a cid token: sha2-256/32 digests are REAL hashes of DataBytes(dig); every other
// (code,len) gets len copies of byte(dig) (the generators keep dig < 256, and dig = 0 when len = 0).
func digest(code uint64, ln, dig int) []byte {
	if code == mh.SHA2_256 && ln == 32 {
		h := sha256.Sum256(DataBytes(dig))
		return h[:]
	}
	return bytes.Repeat([]byte{byte(dig)}, ln)
}

type cidTab struct {
	back   map[string]string
	mhBack map[string]string
}

// Tab is the exported view of the token table (used by cmd/c44).
type Tab struct{ t *cidTab }

func NewTab() *Tab                    { return &Tab{&cidTab{back: map[string]string{}}} }
func (t *Tab) Cid(tok string) cid.Cid { return t.t.cid(tok) }
func (t *Tab) Tok(c cid.Cid) string   { return t.t.tok(c) }
func (t *Tab) MhTok(m mh.Multihash) string {
	if s, ok := t.t.mhBack[string(m)]; ok {
		return s
	}
	return "?" + m.B58String()
}

func (t *cidTab) cid(tok string) cid.Cid {
	f := strings.Split(tok, ".")
	if len(f) != 4 {
		panic("bsx: bad cid token " + tok)
	}
	codec, code, ln, dig := vh.Atoi(f[0]), vh.Atoi(f[1]), vh.Atoi(f[2]), vh.Atoi(f[3])
	m, err := mh.Encode(digest(uint64(code), ln, dig), uint64(code))
	if err != nil {
		panic(err)
	}
	var c cid.Cid
	if codec == 0 {
		c = cid.NewCidV0(m)
	} else {
		c = cid.NewCidV1(uint64(codec), m)
	}
	t.back[c.KeyString()] = tok
	if t.mhBack == nil {
		t.mhBack = map[string]string{}
	}
	t.mhBack[string(m)] = f[1] + "." + f[2] + "." + f[3]
	return c
}

func (t *cidTab) tok(c cid.Cid) string {
	if s, ok := t.back[c.KeyString()]; ok {
		return s
	}
	return "?" + c.String()
}

func (t *cidTab) blk(tok string) blocks.Block {
	i := strings.IndexByte(tok, '=')
	b, err := blocks.NewBlockWithCid(DataBytes(vh.Atoi(tok[i+1:])), t.cid(tok[:i]))
	if err != nil {
		panic(err)
	}
	return b
}

func (t *cidTab) blkTok(b blocks.Block) string { return t.tok(b.Cid()) + "=" + dataID(b.RawData()) }

func (t *cidTab) blkToks(bs []blocks.Block) string {
	ss := make([]string, len(bs))
	for i, b := range bs {
		ss[i] = t.blkTok(b)
	}
	return strings.Join(ss, ",")
}

func parseSet(s string) map[uint64]bool {
	m := map[uint64]bool{}
	if s == "-" {
		return m
	}
	for _, kv := range strings.Split(s, ",") {
		p := strings.SplitN(kv, "=", 2)
		m[uint64(vh.Atoi(p[0]))] = p[1] == "1"
	}
	return m
}

// ParseAllowlist builds the allowlist with the real constructors of package verifcid.
func ParseAllowlist(ts []string) (verifcid.Allowlist, []string) {
	switch ts[0] {
	case "dflt":
		return verifcid.DefaultAllowlist, ts[1:]
	case "plain":
		return verifcid.NewAllowlist(parseSet(ts[1])), ts[2:]
	case "over":
		ov, rest := ParseAllowlist(ts[2:])
		return verifcid.NewOverridingAllowlist(ov, parseSet(ts[1])), rest
	}
	panic("bsx: bad allowlist " + ts[0])
}

// specAllowed is the documented meaning of an allowlist expression, evaluated on the tokens (independent of
// package verifcid): the outermost allow-set that mentions the code decides; then the default list (by hash
// NAME) or, for a list without override, "not allowed".
func specAllowed(ts []string, code uint64) bool {
	switch ts[0] {
	case "dflt":
		return allowedByName[code]
	case "plain":
		return parseSet(ts[1])[code]
	case "over":
		if v, ok := parseSet(ts[1])[code]; ok {
			return v
		}
		return specAllowed(ts[2:], code)
	}
	panic("bsx: bad allowlist " + ts[0])
}

// ---------------------------------------------------------------- recorders

type rec struct {
	mu  sync.Mutex
	evs []string
}

func (r *rec) add(s string) { r.mu.Lock(); r.evs = append(r.evs, s); r.mu.Unlock() }
func (r *rec) take() []string {
	r.mu.Lock()
	defer r.mu.Unlock()
	e := r.evs
	r.evs = nil
	return e
}

// recStore records what the block service asks the blockstore to write.
type recStore struct {
	blockstore.Blockstore
	r    *rec
	t    *cidTab
	onIO func(kind string, c cid.Cid)
	// multihashes written with bytes that do not hash to them (only the exchange answers can be such in C05)
	polluted map[string]bool
	// scripted write failure: failAt = number of write calls (Put / PutMany) that still succeed, -1 = none
	failAt int
	sticky bool
	// the same for Get calls
	rfailAt int
	rsticky bool
	// a scripted read failure fired during the current op
	readFailed bool
}

var errRead = errors.New("scripted blockstore read error")

func (s *recStore) Get(ctx context.Context, k cid.Cid) (blocks.Block, error) {
	switch {
	case s.rfailAt < 0:
	case s.rfailAt > 0:
		s.rfailAt--
	default:
		if !s.rsticky {
			s.rfailAt = -1
		}
		s.readFailed = true
		return nil, errRead
	}
	return s.Blockstore.Get(ctx, k)
}

// failNow consumes one write call of the failure script.
func (s *recStore) failNow() bool {
	switch {
	case s.failAt < 0:
		return false
	case s.failAt > 0:
		s.failAt--
		return false
	}
	if !s.sticky {
		s.failAt = -1
	}
	return true
}

func hashOK(b blocks.Block) bool {
	k2, err := b.Cid().Prefix().Sum(b.RawData())
	return err == nil && k2.Equals(b.Cid())
}

func (s *recStore) Put(ctx context.Context, b blocks.Block) error {
	if s.failNow() {
		s.r.add("putx:" + s.t.blkTok(b))
		s.onIO("put", b.Cid())
		return errStore
	}
	s.r.add("put:" + s.t.blkTok(b))
	s.onIO("put", b.Cid())
	if has, _ := s.Blockstore.Has(ctx, b.Cid()); !has && !hashOK(b) {
		s.polluted[string(b.Cid().Hash())] = true
	}
	return s.Blockstore.Put(ctx, b)
}

func (s *recStore) PutMany(ctx context.Context, bs []blocks.Block) error {
	if s.failNow() {
		for _, b := range bs {
			s.r.add("putx:" + s.t.blkTok(b))
			s.onIO("put", b.Cid())
		}
		return errStore
	}
	for _, b := range bs {
		s.r.add("put:" + s.t.blkTok(b))
		s.onIO("put", b.Cid())
	}
	return s.Blockstore.PutMany(ctx, bs)
}

var (
	errExch   = errors.New("scripted exchange error")
	errNotify = errors.New("scripted notify error")
	errStore  = errors.New("scripted blockstore write error")
)

// scripted exchange: the answers are set before each op.
type exch struct {
	r           *rec
	t           *cidTab
	onIO        func(kind string, c cid.Cid)
	one         blocks.Block   // nil = error
	many        []blocks.Block // answer of GetBlocks
	manyErr     bool
	notifyOK    int // number of NotifyNewBlocks calls that still succeed; <0 = all
	newSessions int // calls of SessionExchange.NewSession
}

func (e *exch) getBlock(tag string, c cid.Cid) (blocks.Block, error) {
	e.r.add(tag + "req:" + e.t.tok(c))
	e.onIO("request", c)
	if e.one == nil {
		return nil, errExch
	}
	return e.one, nil
}

func (e *exch) getBlocks(tag string, ks []cid.Cid) (<-chan blocks.Block, error) {
	ss := make([]string, len(ks))
	for i, c := range ks {
		ss[i] = e.t.tok(c)
		e.onIO("request", c)
	}
	e.r.add(tag + "reqm:" + strings.Join(ss, ","))
	if e.manyErr {
		return nil, errExch
	}
	ch := make(chan blocks.Block, len(e.many))
	for _, b := range e.many {
		ch <- b
	}
	close(ch)
	return ch, nil
}

func (e *exch) GetBlock(_ context.Context, c cid.Cid) (blocks.Block, error) {
	return e.getBlock("", c)
}

func (e *exch) GetBlocks(_ context.Context, ks []cid.Cid) (<-chan blocks.Block, error) {
	return e.getBlocks("", ks)
}

func (e *exch) NotifyNewBlocks(_ context.Context, bs ...blocks.Block) error {
	e.r.add("ntf:" + e.t.blkToks(bs))
	if e.notifyOK == 0 {
		return errNotify
	}
	if e.notifyOK > 0 {
		e.notifyOK--
	}
	return nil
}
func (e *exch) Close() error { return nil }

type sesExch struct{ *exch }

func (e sesExch) NewSession(context.Context) exchange.Fetcher {
	e.exch.newSessions++
	return sesFetcher{e.exch}
}

type sesFetcher struct{ e *exch }

func (s sesFetcher) GetBlock(_ context.Context, c cid.Cid) (blocks.Block, error) {
	return s.e.getBlock("s", c)
}

func (s sesFetcher) GetBlocks(_ context.Context, ks []cid.Cid) (<-chan blocks.Block, error) {
	return s.e.getBlocks("s", ks)
}

// ---------------------------------------------------------------- exec

// Monitors selects which property predicates are evaluated.
type Monitors struct {
	C04 bool // nothing invalid is written / requested / returned; validator spec
	C05 bool // only requested blocks, bytes hash to CID, cached before emit, local blocks never requested
}

func verrName(err error) string {
	switch {
	case err == nil:
		return "ok"
	case errors.Is(err, verifcid.ErrPossiblyInsecureHashFunction):
		return "insecure"
	case errors.Is(err, verifcid.ErrDigestTooSmall):
		return "small"
	case errors.Is(err, verifcid.ErrDigestTooLarge):
		return "large"
	case ipld.IsNotFound(err):
		return "notfound"
	case errors.Is(err, errExch):
		return "exch"
	case errors.Is(err, errNotify):
		return "notify"
	case errors.Is(err, errStore):
		return "storeerr"
	case errors.Is(err, errRead):
		return "readerr"
	}
	return "other"
}

// names of the hash functions the default allowlist is documented to allow (independent of the code constants
// used in verifcid/allowlist.go: resolved through mh.Names)
func defaultAllowedByName() map[uint64]bool {
	m := map[uint64]bool{}
	for _, n := range []string{"sha1", "sha2-256", "sha2-512", "sha3-224", "sha3-256", "sha3-384", "sha3-512",
		"keccak-224", "keccak-256", "keccak-384", "keccak-512", "shake-256", "dbl-sha2-256", "blake3", "identity"} {
		c, ok := mh.Names[n]
		if !ok {
			panic("bsx: unknown hash name " + n)
		}
		m[c] = true
	}
	for bits := 160; bits <= 512; bits += 8 {
		m[mh.Names[fmt.Sprintf("blake2b-%d", bits)]] = true
	}
	for bits := 160; bits <= 256; bits += 8 {
		m[mh.Names[fmt.Sprintf("blake2s-%d", bits)]] = true
	}
	return m
}

var allowedByName = defaultAllowedByName()

// Exec runs one case.
func Exec(c vh.Case, o *vh.Out, mon Monitors) {
	ctx := context.Background()
	tab := &cidTab{back: map[string]string{}}
	r := &rec{}
	var al verifcid.Allowlist = verifcid.DefaultAllowlist
	alToks := []string{"dflt"}
	var raw blockstore.Blockstore
	// two block services per case; raw / rs / ex / bs always denote the one the current op is addressed to
	type service struct {
		raw blockstore.Blockstore
		rs  *recStore
		ex  *exch
		bs  blockservice.BlockService
	}
	var svcA, svcB service
	onB := false
	var otherEx *exch // the exchange of the service the op is NOT addressed to (scripted with the same answers)
	var bs blockservice.BlockService
	var ex *exch

	// o.Fail is called from the getBlocks goroutine (blockstore / exchange recorders) and from the consumer
	var failMu sync.Mutex
	fail := func(sig, format string, a ...any) {
		failMu.Lock()
		defer failMu.Unlock()
		o.Fail(sig, format, a...)
	}

	var rs *recStore
	onIO := func(kind string, k cid.Cid) {
		if mon.C04 {
			if err := verifcid.ValidateCid(al, k); err != nil {
				fail("invalid-"+kind, "%s of %s which the validator rejects (%s)", kind, tab.tok(k), verrName(err))
			}
		}
		if mon.C05 && kind == "request" {
			// a stored block whose blockstore.Get just failed cannot be served locally: not a violation
			if has, _ := raw.Has(ctx, k); has && !(rs != nil && rs.readFailed) {
				fail("local-block-requested", "%s is in the blockstore and was requested from the exchange", tab.tok(k))
			}
		}
	}
	fromExchange := func(b blocks.Block) bool {
		if ex == nil {
			return false
		}
		if ex.one != nil && b == ex.one {
			return true
		}
		for _, x := range ex.many {
			if b == x {
				return true
			}
		}
		return false
	}
	checkEmit := func(b blocks.Block, requested []cid.Cid) {
		k := b.Cid()
		if mon.C04 {
			if err := verifcid.ValidateCid(al, k); err != nil {
				fail("invalid-emit", "returned block %s which the validator rejects (%s)", tab.tok(k), verrName(err))
			}
		}
		if mon.C05 {
			found := false
			for _, q := range requested {
				if q.Equals(k) {
					found = true
				}
			}
			if !found {
				fail("unrequested-emit", "returned block %s was not requested", tab.tok(k))
			}
			if has, _ := raw.Has(ctx, k); !has {
				fail("not-cached-at-emit", "returned block %s is not in the blockstore", tab.tok(k))
			}
			if !hashOK(b) {
				// "hash-mismatch": the bytes came from the exchange (now, or earlier and were cached);
				// "hash-mismatch-local": any other origin
				sig := "hash-mismatch-local"
				if fromExchange(b) || rs.polluted[string(k.Hash())] {
					sig = "hash-mismatch"
				}
				fail(sig, "returned block %s: bytes %q do not hash to its CID", tab.tok(k), b.RawData())
			}
		}
	}
	nsBefore := 0
	nsTag := func() string { // NewSession calls made by the current get / getmany
		n := ex.newSessions - nsBefore
		return fmt.Sprintf(" ns=%d", n)
	}
	flush := func(res string, emits []blocks.Block) {
		o.Emit("%s emits=[%s] evs=[%s]", res, tab.blkToks(emits), strings.Join(r.take(), " "))
	}
	flushNS := func(res string, emits []blocks.Block) {
		o.Emit("%s emits=[%s] evs=[%s]%s", res, tab.blkToks(emits), strings.Join(r.take(), " "), nsTag())
	}
	sessions := map[string]*blockservice.Session{}
	sesCtxs := map[string]context.Context{}
	ctxOfA := func(mode string) context.Context { // context with a session embedded for the FIRST service
		if sesCtxs[mode] == nil {
			sesCtxs[mode] = blockservice.ContextWithSession(ctx, svcA.bs)
			o.Kind("persistent-session")
		}
		return sesCtxs[mode]
	}
	getter := func(mode string) (blockservice.BlockGetter, context.Context) {
		if onB {
			// calls on the second service: with a context that carries the first one's session (must be ignored:
			// the context key is the BlockService), or with B's own session embedded on top of that
			switch {
			case strings.HasPrefix(mode, "C"):
				o.Kind("two-services-shared-context")
				return bs, ctxOfA(mode)
			case strings.HasPrefix(mode, "X"):
				k := "B:" + mode
				if sesCtxs[k] == nil {
					sesCtxs[k] = blockservice.ContextWithSession(ctxOfA("C"+mode[1:]), bs)
				}
				o.Kind("two-services-shared-context")
				return bs, sesCtxs[k]
			}
			return bs, ctx
		}
		switch {
		case mode == "s":
			return blockservice.NewSession(ctx, bs), ctx
		case mode == "c":
			return bs, blockservice.ContextWithSession(ctx, bs)
		case strings.HasPrefix(mode, "S"): // a Session object that lives across ops
			if sessions[mode] == nil {
				sessions[mode] = blockservice.NewSession(ctx, bs)
				o.Kind("persistent-session")
			}
			return sessions[mode], ctx
		case strings.HasPrefix(mode, "C"): // a context with an embedded session that lives across ops
			if strings.HasSuffix(mode, "0") {
				return bs, ctxOfA(mode)
			}
			return blockservice.NewSession(ctxOfA(mode), bs), ctxOfA(mode) // NewSession reuses the embedded one
		}
		return bs, ctx
	}

	defer func() {
		if bs != nil {
			bs.Close() // BlockService.Close = Exchange().Close()
		}
	}()
	for _, line := range c.Ops {
		f := strings.Fields(line)
		if f[0] != "cfg" && f[0] != "vrow" && f[0] != "al" && bs == nil {
			o.Emit("bad-op")
			continue
		}
		// ops addressed to the second block service
		onB = false
		if bs != nil && len(f) > 1 {
			switch {
			case f[0] == "badd":
				onB, f[0] = true, "add"
			case f[0] == "bpeek":
				onB, f[0] = true, "peek"
			case (f[0] == "get" || f[0] == "getmany") && strings.HasPrefix(f[1], "B:"):
				onB = true
				f[1] = f[1][2:]
			}
		}
		if onB {
			raw, rs, ex, bs = svcB.raw, svcB.rs, svcB.ex, svcB.bs
			otherEx = svcA.ex
			o.Kind("second-service")
		} else if bs != nil {
			raw, rs, ex, bs = svcA.raw, svcA.rs, svcA.ex, svcA.bs
			otherEx = svcB.ex
		}
		switch f[0] {
		case "cfg":
			al, _ = ParseAllowlist(f[3:])
			alToks = f[3:]
			raw = blockstore.NewBlockstore(dssync.MutexWrap(ds.NewMapDatastore()))
			ex = &exch{r: r, t: tab, onIO: onIO, notifyOK: -1}
			var exi exchange.Interface
			switch f[2] {
			case "1":
				exi = ex
			case "2":
				exi = sesExch{ex}
			}
			rs = &recStore{Blockstore: raw, r: r, t: tab, onIO: onIO, polluted: map[string]bool{}, failAt: -1, rfailAt: -1}
			bs = blockservice.New(rs, exi,
				blockservice.WithAllowlist(al), blockservice.WriteThrough(f[1] == "0"))
			// the second block service "B": same configuration, its own blockstore and exchange
			svcA = service{raw, rs, ex, bs}
			rawB := blockstore.NewBlockstore(dssync.MutexWrap(ds.NewMapDatastore()))
			exB := &exch{r: r, t: tab, onIO: onIO, notifyOK: -1}
			var exiB exchange.Interface
			switch f[2] {
			case "1":
				exiB = exB
			case "2":
				exiB = sesExch{exB}
			}
			rsB := &recStore{Blockstore: rawB, r: r, t: tab, onIO: onIO, polluted: map[string]bool{}, failAt: -1, rfailAt: -1}
			svcB = service{rawB, rsB, exB, blockservice.New(rsB, exiB,
				blockservice.WithAllowlist(al), blockservice.WriteThrough(f[1] == "0"))}
			sessions, sesCtxs = map[string]*blockservice.Session{}, map[string]context.Context{}
			o.Kind("ex" + f[2])
			o.Kind("al-" + f[3])
			o.Emit("ok")
		case "putfail":
			// the k-th blockstore write call from now on fails (0 = the next one); sticky: and every later one
			if rs == nil {
				o.Emit("bad-op")
				break
			}
			if f[1] == "-" {
				rs.failAt = -1
			} else {
				rs.failAt, rs.sticky = vh.Atoi(f[1]), f[2] == "1"
				o.Kind("store-write-failure")
			}
			o.Emit("ok")
		case "vrow":
			code := uint64(vh.Atoi(f[1]))
			var sb strings.Builder
			for ln := 0; ln <= 256; ln++ {
				m, _ := mh.Encode(make([]byte, ln), code)
				err := verifcid.ValidateCid(al, cid.NewCidV1(cid.Raw, m))
				sb.WriteByte(verrName(err)[0])
				if mon.C04 {
					// the property's statement, evaluated directly
					allowed := specAllowed(alToks, code)
					lo, hi := 20, 128
					if code == mh.IDENTITY {
						lo = 0
					}
					want := allowed && lo <= ln && ln <= hi
					if want != (err == nil) {
						o.Fail("validator-spec", "code %d len %d: ValidateCid=%s, spec says accept=%v", code, ln, verrName(err), want)
					}
					if want {
						o.Nontrivial()
					}
				}
			}
			if _, known := mh.Codes[code]; known {
				o.Kind("vrow-registered")
			} else {
				o.Kind("vrow-unknown")
			}
			o.Emit("%s", sb.String())
		case "add":
			err := bs.AddBlock(ctx, tab.blk(f[1]))
			o.Kind("add-" + verrName(err))
			flush(verrName(err), nil)
		case "addmany":
			var bl []blocks.Block
			for _, t := range f[1:] {
				bl = append(bl, tab.blk(t))
			}
			err := bs.AddBlocks(ctx, bl)
			o.Kind("addmany-" + verrName(err))
			flush(verrName(err), nil)
		case "get":
			k := tab.cid(f[2])
			ex.one = nil
			if f[3] != "err" {
				ex.one = tab.blk(f[3])
			}
			ex.notifyOK = -1
			if f[4] == "0" {
				ex.notifyOK = 0
			}
			nsBefore, rs.readFailed = ex.newSessions, false
			if otherEx != nil { // the other service's exchange would answer the same: a misrouted call still "works"
				otherEx.one, otherEx.notifyOK = ex.one, ex.notifyOK
			}
			g, gctx := getter(f[1])
			b, err := g.GetBlock(gctx, k)
			ex.notifyOK = -1
			o.Kind("get-" + verrName(err))
			if err != nil {
				flushNS(verrName(err), nil)
				break
			}
			checkEmit(b, []cid.Cid{k})
			if fromExchange(b) {
				o.Kind("get-from-exchange")
				o.Nontrivial()
			}
			flushNS("blk", []blocks.Block{b})
		case "getmany":
			sep := len(f)
			for i, t := range f {
				if t == "|" {
					sep = i
				}
			}
			var ks []cid.Cid
			for _, t := range f[3:sep] {
				ks = append(ks, tab.cid(t))
			}
			ex.many, ex.manyErr = nil, false
			if sep+1 < len(f) && f[sep+1] == "err" {
				ex.manyErr = true
			} else if sep < len(f) {
				for _, t := range f[sep+1:] {
					ex.many = append(ex.many, tab.blk(t))
				}
			}
			ex.notifyOK = -1
			if f[2] != "-" {
				ex.notifyOK = vh.Atoi(f[2])
			}
			nsBefore, rs.readFailed = ex.newSessions, false
			if otherEx != nil {
				otherEx.many, otherEx.manyErr, otherEx.notifyOK = ex.many, ex.manyErr, ex.notifyOK
			}
			g, gctx := getter(f[1])
			var got []blocks.Block
			nex := 0
			for b := range g.GetBlocks(gctx, ks) {
				checkEmit(b, ks)
				if fromExchange(b) {
					nex++
				}
				got = append(got, b)
			}
			ex.notifyOK = -1
			if nex > 0 {
				o.Kind("getmany-from-exchange")
				o.Nontrivial()
			}
			if len(got) > nex {
				o.Kind("getmany-local-hit")
			}
			if rs.readFailed {
				o.Kind("getmany-read-failed")
			}
			flushNS("done", got)
		case "cancelget":
			// cancelget <mode> <k> <cid>* | <blk>* : GetBlocks whose context is cancelled by the consumer after it
			// received k blocks. What happens after the cancellation is scheduling-dependent, so the outcome is not
			// diffed (constant output, last op of a case); the monitors check everything that IS handed out, and
			// that the channel gets closed.
			sep := len(f)
			for i, t := range f {
				if t == "|" {
					sep = i
				}
			}
			var ks []cid.Cid
			for _, t := range f[3:sep] {
				ks = append(ks, tab.cid(t))
			}
			ex.many, ex.manyErr, ex.notifyOK = nil, false, -1
			for _, t := range f[min(sep+1, len(f)):] {
				ex.many = append(ex.many, tab.blk(t))
			}
			rs.readFailed = false
			g, gctx := getter(f[1])
			cctx, cancel := context.WithCancel(gctx)
			n, lim := 0, vh.Atoi(f[2])
			if lim == 0 {
				cancel()
			}
			for b := range g.GetBlocks(cctx, ks) {
				checkEmit(b, ks)
				n++
				if n == lim {
					cancel()
				}
			}
			cancel()
			r.take()
			o.Kind("cancelled-getmany")
			o.Emit("cancelled")
		case "getfail":
			// the k-th blockstore.Get call from now on fails with an error that is not "not found"
			if rs == nil {
				o.Emit("bad-op")
				break
			}
			if f[1] == "-" {
				rs.rfailAt = -1
			} else {
				rs.rfailAt, rs.rsticky = vh.Atoi(f[1]), f[2] == "1"
				o.Kind("store-read-failure")
			}
			o.Emit("ok")
		case "del":
			err := bs.DeleteBlock(ctx, tab.cid(f[1]))
			flush(verrName(err), nil)
		case "peek":
			b, err := raw.Get(ctx, tab.cid(f[1]))
			if err != nil {
				o.Emit("none")
			} else {
				o.Emit("%s", dataID(b.RawData()))
			}
		default:
			o.Emit("bad-op")
		}
	}
}

// ---------------------------------------------------------------- generator helpers

func CidTok(codec, code, ln, dig int) string {
	if ln == 0 {
		dig = 0
	}
	return strconv.Itoa(codec) + "." + strconv.Itoa(code) + "." + strconv.Itoa(ln) + "." + strconv.Itoa(dig)
}
