// Package pinh is the shared part of the C22 / C23 harnesses: it builds a DAG pool from a `dag`
// op line, runs the REAL dspinner over a logging datastore whose query results come back in key
// order (like leveldb/pebble; go-datastore leaves the order unspecified), executes the mutation
// ops, dumps every query API in a canonical form and evaluates the property predicates
// (monitor) against an independent spec-level pin model kept in Go maps.
package pinh

import (
	"context"
	"errors"
	"fmt"
	"path"
	"sort"
	"strconv"
	"strings"

	bserv "github.com/ipfs/boxo/blockservice"
	blockstore "github.com/ipfs/boxo/blockstore"
	offline "github.com/ipfs/boxo/exchange/offline"
	mdag "github.com/ipfs/boxo/ipld/merkledag"
	ipfspin "github.com/ipfs/boxo/pinning/pinner"
	"github.com/ipfs/boxo/pinning/pinner/dspinner"
	cid "github.com/ipfs/go-cid"
	ds "github.com/ipfs/go-datastore"
	"github.com/ipfs/go-datastore/query"
	dssync "github.com/ipfs/go-datastore/sync"
	ipld "github.com/ipfs/go-ipld-format"
	logging "github.com/ipfs/go-log/v2"
	"github.com/multiformats/go-multibase"
	"github.com/polydawn/refmt/cbor"
)

func init() {
	// the pinner reports index repairs with log.Errorf; keep stderr quiet
	logging.SetAllLoggers(logging.LevelFatal)
}

// ---------------------------------------------------------------- logging, key-ordered datastore

type Write struct {
	Del bool
	Key string
	Val []byte
}

// IDMap numbers the pin ids (random uuids) in creation order: 1, 2, …
type IDMap struct{ m map[string]int }

func NewIDMap() *IDMap { return &IDMap{m: map[string]int{}} }

func (im *IDMap) note(id string) {
	if _, ok := im.m[id]; !ok {
		im.m[id] = len(im.m) + 1
	}
}

// LogDS is a MapDatastore that logs Put/Delete and returns query results in a fixed order
// (go-datastore leaves the order of unordered queries unspecified): by key, like leveldb/pebble,
// except that keys whose last component is a pin id (records, index entries) are ordered among
// their siblings by the creation order of that id instead of by the random uuid, so that the
// order in which the pinner meets several pins of one CID is reproducible.
type LogDS struct {
	*ds.MapDatastore
	Log []Write
	IDs *IDMap
	// scripted I/O failure: the write attempt number FailAt (0-based, counted over Put and Delete
	// since the last ResetAttempts) returns ErrInjected and changes nothing; -1 = never
	FailAt, attempt int
}

var ErrInjected = errors.New("injected datastore failure")

func (d *LogDS) fails() bool {
	a := d.attempt
	d.attempt++
	return a == d.FailAt
}

func NewLogDS(ids *IDMap) *LogDS {
	return &LogDS{MapDatastore: ds.NewMapDatastore(), IDs: ids, FailAt: -1}
}

func (d *LogDS) Put(ctx context.Context, k ds.Key, v []byte) error {
	if d.fails() {
		return ErrInjected
	}
	if ks := k.String(); strings.HasPrefix(ks, "/pins/pin/") {
		d.IDs.note(path.Base(ks))
	}
	d.Log = append(d.Log, Write{Key: k.String(), Val: append([]byte(nil), v...)})
	return d.MapDatastore.Put(ctx, k, v)
}

func (d *LogDS) Delete(ctx context.Context, k ds.Key) error {
	if d.fails() {
		return ErrInjected
	}
	d.Log = append(d.Log, Write{Del: true, Key: k.String()})
	return d.MapDatastore.Delete(ctx, k)
}

// idRank: creation ordinal of the pin id in the last key component (0 when it is not a known id)
func (d *LogDS) idRank(key string) int {
	last := path.Base(key)
	if strings.HasPrefix(key, "/pins/index/") {
		if _, b, err := multibase.Decode(last); err == nil {
			last = string(b)
		}
	}
	return d.IDs.m[last]
}

func (d *LogDS) cmp(a, b query.Entry) int {
	pa, pb := path.Dir(a.Key), path.Dir(b.Key)
	if pa != pb {
		return strings.Compare(pa, pb)
	}
	ra, rb := d.idRank(a.Key), d.idRank(b.Key)
	if ra != 0 && rb != 0 && ra != rb {
		if ra < rb {
			return -1
		}
		return 1
	}
	return strings.Compare(a.Key, b.Key)
}

func (d *LogDS) Query(ctx context.Context, q query.Query) (query.Results, error) {
	if len(q.Orders) == 0 {
		q.Orders = []query.Order{query.OrderByFunction(d.cmp)}
	}
	return d.MapDatastore.Query(ctx, q)
}

// Snapshot copies the persisted map.
func (d *LogDS) Snapshot() map[string][]byte {
	out := map[string][]byte{}
	res, err := d.MapDatastore.Query(context.Background(), query.Query{})
	if err != nil {
		panic(err)
	}
	ents, err := res.Rest()
	if err != nil {
		panic(err)
	}
	for _, e := range ents {
		out[e.Key] = append([]byte(nil), e.Value...)
	}
	return out
}

// FromSnapshot builds a store holding snap plus the given writes applied in order.
func FromSnapshot(snap map[string][]byte, ws []Write, ids *IDMap) *LogDS {
	d := NewLogDS(ids)
	ctx := context.Background()
	for k, v := range snap {
		d.MapDatastore.Put(ctx, ds.NewKey(k), v)
	}
	for _, w := range ws {
		if w.Del {
			d.MapDatastore.Delete(ctx, ds.NewKey(w.Key))
		} else {
			d.MapDatastore.Put(ctx, ds.NewKey(w.Key), w.Val)
		}
	}
	return d
}

// ---------------------------------------------------------------- DAG service with a cancel trigger

type hookDS struct {
	ipld.DAGService
	fire func() error // when set: called on every Get/GetMany; a non-nil error is returned instead
}

func (h *hookDS) Get(ctx context.Context, c cid.Cid) (ipld.Node, error) {
	if h.fire != nil {
		if err := h.fire(); err != nil {
			return nil, err
		}
	}
	return h.DAGService.Get(ctx, c)
}

func (h *hookDS) GetMany(ctx context.Context, cs []cid.Cid) <-chan *ipld.NodeOption {
	if h.fire != nil {
		if err := h.fire(); err != nil {
			ch := make(chan *ipld.NodeOption, 1)
			ch <- &ipld.NodeOption{Err: err}
			close(ch)
			return ch
		}
	}
	return h.DAGService.GetMany(ctx, cs)
}

// ---------------------------------------------------------------- world

type World struct {
	N       int
	Links   [][]int
	Salt    []int
	Present []bool // blocks currently in the block store (tracked by the harness)
	Nodes   []*mdag.ProtoNode
	Cids    []cid.Cid
	Idx     map[string]int // cid.KeyString -> pool index

	bs    blockstore.Blockstore
	dserv *hookDS
	Store *LogDS
	P     ipfspin.Pinner

	IDs *IDMap // real pin id -> creation ordinal (1,2,…)

	// spec-level pin model used by the monitor (cid index -> name number)
	SpecR, SpecD map[int]int
}

func encKey(s string) string {
	e, err := multibase.Encode(multibase.Base64url, []byte(s))
	if err != nil {
		panic(err)
	}
	return e
}

func decKey(s string) string {
	_, b, err := multibase.Decode(s)
	if err != nil {
		panic("pinh: bad index component " + s)
	}
	return string(b)
}

// ParseDag: "dag <n> <tok>…", tok = ('+'|'!') <salt> ':' [links csv]
func ParseDag(line string) (links [][]int, salt []int, present []bool) {
	f := strings.Fields(line)
	n, _ := strconv.Atoi(f[1])
	for i := 0; i < n; i++ {
		t := f[2+i]
		present = append(present, t[0] == '+')
		p := strings.SplitN(t[1:], ":", 2)
		s, _ := strconv.Atoi(p[0])
		salt = append(salt, s)
		var ls []int
		if p[1] != "" {
			for _, x := range strings.Split(p[1], ",") {
				v, _ := strconv.Atoi(x)
				ls = append(ls, v)
			}
		}
		links = append(links, ls)
	}
	return
}

// BuildNodes constructs the ProtoNodes of a pool (memoised recursion over the links).
func BuildNodes(links [][]int, salt []int) []*mdag.ProtoNode {
	nodes := make([]*mdag.ProtoNode, len(links))
	var build func(i int) *mdag.ProtoNode
	build = func(i int) *mdag.ProtoNode {
		if nodes[i] != nil {
			return nodes[i]
		}
		nd := new(mdag.ProtoNode)
		nd.SetData([]byte(fmt.Sprintf("s%d", salt[i])))
		for k, j := range links[i] {
			ch := build(j)
			if err := nd.AddRawLink(fmt.Sprintf("l%02d", k), &ipld.Link{Cid: ch.Cid()}); err != nil {
				panic(err)
			}
		}
		nd.Cid()
		nodes[i] = nd
		return nd
	}
	for i := range links {
		build(i)
	}
	return nodes
}

// SortKey is the string by which the cid index entries of a CID are ordered in the datastore.
func SortKey(c cid.Cid) string { return encKey(c.KeyString()) }

func NewWorld(dagLine string) *World {
	links, salt, present := ParseDag(dagLine)
	w := &World{N: len(links), Links: links, Salt: salt, Present: present, Idx: map[string]int{},
		IDs: NewIDMap(), SpecR: map[int]int{}, SpecD: map[int]int{}}
	w.Nodes = BuildNodes(links, salt)
	for i, nd := range w.Nodes {
		w.Cids = append(w.Cids, nd.Cid())
		w.Idx[nd.Cid().KeyString()] = i
		if i > 0 && !(SortKey(w.Cids[i-1]) < SortKey(w.Cids[i])) {
			panic("pinh: pool not in index-key order")
		}
	}
	bds := dssync.MutexWrap(ds.NewMapDatastore())
	w.bs = blockstore.NewBlockstore(bds)
	w.dserv = &hookDS{DAGService: mdag.NewDAGService(bserv.New(w.bs, offline.Exchange(w.bs)))}
	ctx := context.Background()
	for i, nd := range w.Nodes {
		if present[i] {
			if err := w.bs.Put(ctx, nd); err != nil {
				panic(err)
			}
		}
	}
	w.Store = NewLogDS(w.IDs)
	w.Open(w.Store)
	return w
}

// Open (re)creates the pinner on the given store; returns the writes New made (index rebuild).
func (w *World) Open(st *LogDS) []Write {
	if w.P != nil {
		w.P.Close()
	}
	w.Store = st
	st.Log = nil
	p, err := dspinner.New(context.Background(), st, w.dserv)
	if err != nil {
		panic("dspinner.New: " + err.Error())
	}
	w.P = p
	ws := st.Log
	st.Log = nil
	return ws
}

func nameStr(n int) string {
	if n == 0 {
		return ""
	}
	return "n" + strconv.Itoa(n)
}

func nameNum(s string) string {
	if s == "" {
		return "0"
	}
	if strings.HasPrefix(s, "n") {
		return s[1:]
	}
	return "?" + s
}

func ErrTok(err error) string {
	if err == nil {
		return "ok"
	}
	s := err.Error()
	switch {
	case errors.Is(err, ErrInjected) || strings.Contains(s, "injected datastore failure"):
		return "ioerr"
	case errors.Is(err, context.Canceled) || strings.Contains(s, "context canceled"):
		return "cancelled"
	case errors.Is(err, ipfspin.ErrNotPinned):
		return "notpinned"
	case strings.Contains(s, "already pinned recursively"):
		return "already-rec"
	case strings.Contains(s, "is pinned recursively"):
		return "is-rec"
	case strings.Contains(s, "'from' cid was not recursively pinned"):
		return "from-notrec"
	case strings.Contains(s, "'to' cid was already recursively pinned"):
		return "to-rec"
	case strings.Contains(s, "unrecognized pin mode"):
		return "badmode"
	case strings.Contains(s, "invalid Pin Mode"):
		return "invalid"
	case ipld.IsNotFound(err) || strings.Contains(s, "not found") || strings.Contains(s, "could not find"):
		return "notfound"
	}
	return "other"
}

// Mutate runs one mutation op (fields of the op line) and returns the result token and the writes.
//
//	pin <c> <rec> <name> <ctx> | pinmode <c> <mode> <name> <ctx> | unpin <c> <rec> <ctx> | update <from> <to> <unpin> <ctx>
//
// ctx: ok | pre (cancelled before the call) | mid (cancelled at the first block fetch of the call)
func (w *World) Mutate(f []string) (string, []Write) {
	ctxKind := f[len(f)-1]
	ctx, cancel := context.WithCancel(context.Background())
	defer cancel()
	switch ctxKind {
	case "pre":
		cancel()
	case "mid":
		w.dserv.fire = func() error { cancel(); return context.Canceled }
	}
	defer func() { w.dserv.fire = nil }()
	w.Store.Log = nil
	tok := w.call(ctx, f)
	ws := w.Store.Log
	w.Store.Log = nil
	return tok, ws
}

// MutateIO runs one call whose k-th datastore write attempt fails.
func (w *World) MutateIO(f []string, k int) (string, []Write) {
	w.Store.FailAt, w.Store.attempt = k, 0
	defer func() { w.Store.FailAt = -1 }()
	return w.Mutate(f)
}

// call runs one API call and returns its result token (the write log is not touched).
func (w *World) call(ctx context.Context, f []string) string {
	at := func(i int) int { v, _ := strconv.Atoi(f[i]); return v }
	var err error
	switch f[0] {
	case "pin":
		c := at(1)
		w.Present[c] = true // Pin adds the root block before anything else
		err = w.P.Pin(ctx, w.Nodes[c], at(2) == 1, nameStr(at(3)))
	case "pinmode":
		err = w.P.PinWithMode(ctx, w.Cids[at(1)], ipfspin.Mode(at(2)), nameStr(at(3)))
	case "unpin":
		err = w.P.Unpin(ctx, w.Cids[at(1)], at(2) == 1)
	case "update":
		err = w.P.Update(ctx, w.Cids[at(1)], w.Cids[at(2)], at(3) == 1)
	case "autosync":
		if w.P.(interface{ SetAutosync(bool) bool }).SetAutosync(at(1) == 1) {
			return "was1"
		}
		return "was0"
	case "flush":
		err = w.P.Flush(ctx)
	default:
		panic("pinh: bad mutation " + f[0])
	}
	return ErrTok(err)
}

// Nested runs call A (a recursive Pin or an Update, live context) and, inside the window in which A
// has released the pinner lock to fetch blocks (at A's first block fetch), the complete call B on the
// same goroutine. Returns A's token, B's token ("none" when A never reached its window), B's writes
// and A's writes.
func (w *World) Nested(fa, fb []string) (string, string, []Write, []Write) {
	w.Store.Log = nil
	tokB := "none"
	b0, b1 := 0, 0
	w.dserv.fire = func() error {
		w.dserv.fire = nil
		b0 = len(w.Store.Log)
		tokB = w.call(context.Background(), fb)
		b1 = len(w.Store.Log)
		return nil
	}
	tokA := w.call(context.Background(), fa)
	w.dserv.fire = nil
	ws := w.Store.Log
	w.Store.Log = nil
	wb := append([]Write(nil), ws[b0:b1]...)
	wa := append(append([]Write(nil), ws[:b0]...), ws[b1:]...)
	return tokA, tokB, wb, wa
}

// ResyncSpec reloads the spec-level pin model from the detailed listings of a dump (used after a
// nested call, whose outcome the sequential pin model does not predict).
func (w *World) ResyncSpec(d *Dump) {
	load := func(tok string) map[int]int {
		m := map[int]int{}
		if tok == "" {
			return m
		}
		for _, e := range strings.Split(tok, ",") {
			p := strings.SplitN(e, ":", 2)
			c, _ := strconv.Atoi(p[0])
			nm := 0
			if q := strings.SplitN(p[1], "/", 2); len(q) == 2 {
				nm, _ = strconv.Atoi(strings.SplitN(q[1], "|", 2)[0])
			}
			m[c] = nm
		}
		return m
	}
	w.SpecD, w.SpecR = load(d.Lists[1]), load(d.Lists[3])
}

// ExpectOK tells, from the pin model alone, whether the call must succeed (want) — when the model
// determines it (known); the outcome of Update's DiffEnumerate is left open.
func (w *World) ExpectOK(f []string) (want bool, known bool) {
	at := func(i int) int { v, _ := strconv.Atoi(f[i]); return v }
	if f[0] == "autosync" || f[0] == "flush" {
		return true, true
	}
	ctx := f[len(f)-1]
	_, isR := w.SpecR[at(1)]
	_, isD := w.SpecD[at(1)]
	switch f[0] {
	case "pin", "pinmode":
		rec, dir := at(2) == 1, at(2) == 0
		if f[0] == "pinmode" {
			rec, dir = at(2) == 0, at(2) == 1
			if !rec && !dir {
				return false, true
			}
		}
		if ctx == "pre" {
			return false, true
		}
		if dir {
			return !isR, true
		}
		if f[0] == "pinmode" {
			return true, true
		}
		if ctx == "mid" {
			return false, true
		}
		// Pin(recursive): succeeds iff every block below the root is (now) in the block store
		seen := map[int]bool{}
		w.reachStar(at(1), seen)
		for i := range seen {
			if !w.Present[i] && i != at(1) {
				return false, true
			}
		}
		return true, true
	case "unpin":
		if ctx == "pre" {
			return false, true
		}
		if isR {
			return at(2) == 1, true
		}
		return isD, true
	case "update":
		_, toR := w.SpecR[at(2)]
		switch {
		case !isR:
			return false, true
		case at(1) == at(2):
			return true, true
		case ctx == "pre" || toR || ctx == "mid":
			return false, true
		}
		return false, false
	}
	return false, false
}

// ApplySpec applies the property's pin-model transition of a SUCCESSFUL mutation to the spec maps.
func (w *World) ApplySpec(f []string) {
	at := func(i int) int { v, _ := strconv.Atoi(f[i]); return v }
	switch f[0] {
	case "pin", "pinmode":
		c, name := at(1), at(3)
		rec := at(2) == 1
		if f[0] == "pinmode" {
			rec = at(2) == 0
		}
		if rec {
			w.SpecR[c] = name
			delete(w.SpecD, c)
		} else {
			w.SpecD[c] = name
		}
	case "unpin":
		delete(w.SpecR, at(1))
		delete(w.SpecD, at(1))
	case "update":
		from, to := at(1), at(2)
		if from != to {
			w.SpecR[to] = w.SpecR[from]
			if at(3) == 1 {
				delete(w.SpecR, from)
			}
		}
	}
}

// ---------------------------------------------------------------- canonical rendering of writes / raw keys

func (w *World) idOrd(id string) string {
	if o, ok := w.IDs.m[id]; ok {
		return strconv.Itoa(o)
	}
	return "?" + id
}

type rawPin struct {
	Cid  int
	Mode int
	Name string
}

func (w *World) decodePin(data []byte) (rawPin, bool) {
	var m map[string]any
	if err := cbor.Unmarshal(cbor.DecodeOptions{}, data, &m); err != nil {
		return rawPin{}, false
	}
	var r rawPin
	cb, _ := m["cid"].([]byte)
	c, err := cid.Cast(cb)
	if err != nil {
		return rawPin{}, false
	}
	i, ok := w.Idx[c.KeyString()]
	if !ok {
		return rawPin{}, false
	}
	r.Cid = i
	switch v := m["mode"].(type) {
	case int:
		r.Mode = v
	case int64:
		r.Mode = int(v)
	case uint64:
		r.Mode = int(v)
	default:
		return rawPin{}, false
	}
	r.Name, _ = m["name"].(string)
	return r, true
}

// CanonKey renders one datastore key (and value where it matters) canonically.
func (w *World) CanonKey(key string, val []byte) string {
	switch {
	case key == "/pins/state/dirty":
		if len(val) == 1 {
			return fmt.Sprintf("dirty=%d", val[0])
		}
		return "dirty"
	case strings.HasPrefix(key, "/pins/pin/"):
		s := "rec" + w.idOrd(path.Base(key))
		if val != nil {
			if r, ok := w.decodePin(val); ok {
				s += fmt.Sprintf("=%d,%d,%s", r.Cid, r.Mode, nameNum(r.Name))
			} else {
				s += "=?"
			}
		}
		return s
	case strings.HasPrefix(key, "/pins/index/"):
		p := strings.Split(strings.TrimPrefix(key, "/pins/index/"), "/")
		if len(p) != 3 {
			return "?" + key
		}
		k, v := decKey(p[1]), decKey(p[2])
		switch p[0] {
		case "cidRindex", "cidDindex":
			ci, ok := w.Idx[k]
			cs := strconv.Itoa(ci)
			if !ok {
				cs = "?"
			}
			return fmt.Sprintf("%c%s.%s", p[0][3], cs, w.idOrd(v))
		case "nameIndex":
			return fmt.Sprintf("N%s.%s", nameNum(k), w.idOrd(v))
		}
	}
	return "?" + key
}

func (w *World) CanonWrites(ws []Write) string {
	var out []string
	for _, x := range ws {
		if x.Del {
			out = append(out, "-"+w.CanonKey(x.Key, nil))
		} else {
			out = append(out, "+"+w.CanonKey(x.Key, x.Val))
		}
	}
	return "[" + strings.Join(out, ";") + "]"
}

// RawState is the decoded content of the /pins keyspace.
type RawState struct {
	Dirty int                 // -1 absent
	Recs  map[string]rawPin   // id -> record
	R, D  map[int][]string    // cid -> ids
	N     map[string][]string // name -> ids
}

func (w *World) Raw(snap map[string][]byte) (RawState, string) {
	rs := RawState{Dirty: -1, Recs: map[string]rawPin{}, R: map[int][]string{}, D: map[int][]string{}, N: map[string][]string{}}
	var keys []string
	for k, v := range snap {
		keys = append(keys, w.CanonKey(k, v))
		switch {
		case k == "/pins/state/dirty":
			rs.Dirty = int(v[0])
		case strings.HasPrefix(k, "/pins/pin/"):
			if r, ok := w.decodePin(v); ok {
				rs.Recs[path.Base(k)] = r
			}
		case strings.HasPrefix(k, "/pins/index/"):
			p := strings.Split(strings.TrimPrefix(k, "/pins/index/"), "/")
			if len(p) == 3 {
				kk, vv := decKey(p[1]), decKey(p[2])
				switch p[0] {
				case "cidRindex":
					rs.R[w.Idx[kk]] = append(rs.R[w.Idx[kk]], vv)
				case "cidDindex":
					rs.D[w.Idx[kk]] = append(rs.D[w.Idx[kk]], vv)
				case "nameIndex":
					rs.N[kk] = append(rs.N[kk], vv)
				}
			}
		}
	}
	sort.Slice(keys, func(i, j int) bool { return canonLess(keys[i], keys[j]) })
	return rs, "{" + strings.Join(keys, ";") + "}"
}

// canonLess orders canonical keys: by kind letter, then numerically by the embedded numbers.
func canonLess(a, b string) bool {
	ka, na := splitCanon(a)
	kb, nb := splitCanon(b)
	if ka != kb {
		return ka < kb
	}
	for i := 0; i < len(na) && i < len(nb); i++ {
		if na[i] != nb[i] {
			return na[i] < nb[i]
		}
	}
	if len(na) != len(nb) {
		return len(na) < len(nb)
	}
	return a < b
}

func splitCanon(s string) (string, []int) {
	kind := ""
	switch {
	case strings.HasPrefix(s, "dirty"):
		kind = "0"
	case strings.HasPrefix(s, "rec"):
		kind = "1"
	case strings.HasPrefix(s, "R"):
		kind = "2"
	case strings.HasPrefix(s, "D"):
		kind = "3"
	case strings.HasPrefix(s, "N"):
		kind = "4"
	default:
		kind = "9"
	}
	var nums []int
	cur, in := 0, false
	for _, ch := range s {
		if ch >= '0' && ch <= '9' {
			cur = cur*10 + int(ch-'0')
			in = true
		} else {
			if in {
				nums = append(nums, cur)
			}
			cur, in = 0, false
			if ch == '=' {
				break
			}
		}
	}
	if in {
		nums = append(nums, cur)
	}
	return kind, nums
}

// ConsistencyFailures evaluates the C23 predicate on a raw state: every index entry has a matching
// record and every record is indexed (cid index of its mode, name index when named).
func (rs RawState) ConsistencyFailures() []string {
	var out []string
	chk := func(idx map[int][]string, mode int, tag string) {
		for c, ids := range idx {
			for _, id := range ids {
				r, ok := rs.Recs[id]
				if !ok {
					out = append(out, fmt.Sprintf("%s index entry cid=%d without record", tag, c))
				} else if r.Cid != c || r.Mode != mode {
					out = append(out, fmt.Sprintf("%s index entry cid=%d points at record cid=%d mode=%d", tag, c, r.Cid, r.Mode))
				}
			}
		}
	}
	chk(rs.R, 0, "recursive")
	chk(rs.D, 1, "direct")
	for n, ids := range rs.N {
		for _, id := range ids {
			if r, ok := rs.Recs[id]; !ok || r.Name != n {
				out = append(out, fmt.Sprintf("name index entry %q without matching record", n))
			}
		}
	}
	has := func(xs []string, x string) bool {
		for _, y := range xs {
			if y == x {
				return true
			}
		}
		return false
	}
	for id, r := range rs.Recs {
		idx := rs.R
		if r.Mode == 1 {
			idx = rs.D
		}
		if !has(idx[r.Cid], id) {
			out = append(out, fmt.Sprintf("record cid=%d mode=%d not in its cid index", r.Cid, r.Mode))
		}
		if r.Name != "" && !has(rs.N[r.Name], id) {
			out = append(out, fmt.Sprintf("record cid=%d name=%q not in the name index", r.Cid, r.Name))
		}
	}
	sort.Strings(out)
	return out
}

// ---------------------------------------------------------------- queries

// Dangling: some recursive root (per the raw store) reaches a block that is not in the block store.
func (w *World) reachStar(from int, seen map[int]bool) {
	if seen[from] {
		return
	}
	seen[from] = true
	for _, j := range w.Links[from] {
		w.reachStar(j, seen)
	}
}

func (w *World) Dangling(roots []int) bool {
	seen := map[int]bool{}
	for _, r := range roots {
		w.reachStar(r, seen)
	}
	for i := range seen {
		if !w.Present[i] {
			return true
		}
	}
	return false
}

// ReachPlus: c reachable from r by at least one link.
func (w *World) ReachPlus(r, c int) bool {
	seen := map[int]bool{}
	for _, j := range w.Links[r] {
		w.reachStar(j, seen)
	}
	return seen[c]
}

var QueryModes = []int{0, 1, 2, 3, 4, 5, 6}

type Dump struct {
	IP       []string
	T        map[int][]string
	CK       string
	K        map[[2]int]string
	Lists    [4]string // dk0 dk1 rk0 rk1
	Dangling bool
	Roots    []int // recursive roots per RecursiveKeys
	Light    bool
}

func (w *World) cidTok(c cid.Cid) string {
	if i, ok := w.Idx[c.KeyString()]; ok {
		return strconv.Itoa(i)
	}
	return "?"
}

func (w *World) reasonTok(reason string, pinned bool, err error) string {
	if err != nil {
		return "E" + ErrTok(err)
	}
	if !pinned {
		if reason != "" {
			return "n?" + reason
		}
		return "n"
	}
	switch reason {
	case "recursive":
		return "r"
	case "direct":
		return "d"
	}
	c, e := cid.Decode(reason)
	if e != nil {
		return "?" + reason
	}
	return "i" + w.cidTok(c)
}

// candNames: the names of all records indexed for cid c in the index of the given mode (sorted, unique).
func (w *World) candNames(rs RawState, mode ipfspin.Mode, c int) []string {
	idx := rs.R
	if mode == ipfspin.Direct {
		idx = rs.D
	}
	set := map[string]bool{}
	for _, id := range idx[c] {
		if r, ok := rs.Recs[id]; ok {
			set[nameNum(r.Name)] = true
		}
	}
	var out []string
	for k := range set {
		out = append(out, k)
	}
	sort.Slice(out, func(i, j int) bool { a, _ := strconv.Atoi(out[i]); b, _ := strconv.Atoi(out[j]); return a < b })
	return out
}

// nameTok canonicalises a returned pin name: when several pins exist for the same (cid, mode) (only
// possible after a crash) the API returns the name of whichever id sorts first; ids are random, so
// the harness prints the whole candidate set provided the returned name is one of them.
func (w *World) nameTok(rs RawState, mode ipfspin.Mode, c int, got string) string {
	cands := w.candNames(rs, mode, c)
	g := nameNum(got)
	if len(cands) > 1 {
		for _, x := range cands {
			if x == g {
				return strings.Join(cands, "|")
			}
		}
	}
	return g
}

func modeChar(m ipfspin.Mode) string {
	switch m {
	case ipfspin.Recursive:
		return "r"
	case ipfspin.Direct:
		return "d"
	case ipfspin.Indirect:
		return "i"
	case ipfspin.NotPinned:
		return "n"
	}
	return "?" + strconv.Itoa(int(m))
}

func (w *World) batchTok(rs RawState, names bool, res []ipfspin.Pinned, err error, want int) string {
	if err != nil {
		return "E" + ErrTok(err)
	}
	if len(res) != want {
		return fmt.Sprintf("badlen%d", len(res))
	}
	type ent struct {
		c int
		s string
	}
	var es []ent
	for _, p := range res {
		i, ok := w.Idx[p.Key.KeyString()]
		if !ok {
			return "badcid"
		}
		s := modeChar(p.Mode)
		if p.Mode == ipfspin.Indirect {
			s += w.cidTok(p.Via)
		}
		if names && (p.Mode == ipfspin.Recursive || p.Mode == ipfspin.Direct) {
			s += "/" + w.nameTok(rs, p.Mode, i, p.Name)
		} else if p.Name != "" {
			s += "/!" + nameNum(p.Name)
		}
		es = append(es, ent{i, s})
	}
	sort.SliceStable(es, func(a, b int) bool { return es[a].c < es[b].c })
	out := make([]string, len(es))
	for i, e := range es {
		out[i] = strconv.Itoa(e.c) + ":" + e.s
	}
	return strings.Join(out, ",")
}

func (w *World) listTok(rs RawState, ch <-chan ipfspin.StreamedPin, detailed bool, mode ipfspin.Mode) string {
	type ent struct {
		c int
		s string
	}
	var es []ent
	errTok := ""
	for sp := range ch {
		if sp.Err != nil {
			errTok = "E" + ErrTok(sp.Err)
			continue
		}
		i, ok := w.Idx[sp.Pin.Key.KeyString()]
		if !ok {
			errTok = "badcid"
			continue
		}
		s := strconv.Itoa(i)
		if detailed {
			s += ":" + modeChar(sp.Pin.Mode) + "/" + w.nameTok(rs, mode, i, sp.Pin.Name)
		}
		es = append(es, ent{i, s})
	}
	if errTok != "" {
		return errTok
	}
	sort.SliceStable(es, func(a, b int) bool { return es[a].c < es[b].c })
	out := make([]string, len(es))
	for i, e := range es {
		out[i] = e.s
	}
	return strings.Join(out, ",")
}

// QueryLight runs IsPinned for every pool CID, CheckIfPinned, CheckIfPinnedWithType(Any, names) and
// the two detailed listings (used for the many crash images of C23).
func (w *World) QueryLight() *Dump {
	ctx := context.Background()
	rs, _ := w.Raw(w.Store.Snapshot())
	d := &Dump{T: map[int][]string{}, K: map[[2]int]string{}, Light: true}
	for c := range rs.R {
		d.Roots = append(d.Roots, c)
	}
	sort.Ints(d.Roots)
	d.Dangling = w.Dangling(d.Roots)
	for i := 0; i < w.N; i++ {
		r, ok, err := w.P.IsPinned(ctx, w.Cids[i])
		d.IP = append(d.IP, w.reasonTok(r, ok, err))
	}
	need := false
	for i := 0; i < w.N; i++ {
		_, r := rs.R[i]
		_, dd := rs.D[i]
		if !r && !dd {
			need = true
		}
	}
	res, err := w.P.CheckIfPinned(ctx, w.Cids...)
	d.CK = w.batchTok(rs, false, res, err, w.N)
	res, err = w.P.CheckIfPinnedWithType(ctx, ipfspin.Any, true, w.Cids...)
	d.K[[2]int{5, 1}] = w.batchTok(rs, true, res, err, w.N)
	if d.Dangling && need {
		d.CK = w.danglingTok(d.CK)
		d.K[[2]int{5, 1}] = w.danglingTok(d.K[[2]int{5, 1}])
	}
	d.Lists[1] = w.listTok(rs, w.P.DirectKeys(ctx, true), true, ipfspin.Direct)
	d.Lists[3] = w.listTok(rs, w.P.RecursiveKeys(ctx, true), true, ipfspin.Recursive)
	return d
}

// Query runs every query API for every pool CID / mode and returns the dump.
func (w *World) Query() *Dump {
	ctx := context.Background()
	rs, _ := w.Raw(w.Store.Snapshot())
	d := &Dump{T: map[int][]string{}, K: map[[2]int]string{}}
	for c := range rs.R {
		d.Roots = append(d.Roots, c)
	}
	sort.Ints(d.Roots)
	d.Dangling = w.Dangling(d.Roots)
	for i := 0; i < w.N; i++ {
		r, ok, err := w.P.IsPinned(ctx, w.Cids[i])
		d.IP = append(d.IP, w.reasonTok(r, ok, err))
	}
	for _, m := range QueryModes {
		for i := 0; i < w.N; i++ {
			r, ok, err := w.P.IsPinnedWithType(ctx, w.Cids[i], ipfspin.Mode(m))
			d.T[m] = append(d.T[m], w.reasonTok(r, ok, err))
		}
	}
	needWalk := func(mode int) bool {
		for i := 0; i < w.N; i++ {
			_, r := rs.R[i]
			_, dd := rs.D[i]
			if mode == int(ipfspin.Indirect) && !r {
				return true
			}
			if mode == int(ipfspin.Any) && !r && !dd {
				return true
			}
		}
		return false
	}
	res, err := w.P.CheckIfPinned(ctx, w.Cids...)
	d.CK = w.batchTok(rs, false, res, err, w.N)
	if d.Dangling && needWalk(int(ipfspin.Any)) {
		d.CK = w.danglingTok(d.CK)
	}
	for _, m := range QueryModes {
		for nm := 0; nm < 2; nm++ {
			res, err := w.P.CheckIfPinnedWithType(ctx, ipfspin.Mode(m), nm == 1, w.Cids...)
			tok := w.batchTok(rs, nm == 1, res, err, w.N)
			if d.Dangling && (m == int(ipfspin.Indirect) || m == int(ipfspin.Any)) && needWalk(m) {
				tok = w.danglingTok(tok)
			}
			d.K[[2]int{m, nm}] = tok
		}
	}
	d.Lists[0] = w.listTok(rs, w.P.DirectKeys(ctx, false), false, ipfspin.Direct)
	d.Lists[1] = w.listTok(rs, w.P.DirectKeys(ctx, true), true, ipfspin.Direct)
	d.Lists[2] = w.listTok(rs, w.P.RecursiveKeys(ctx, false), false, ipfspin.Recursive)
	d.Lists[3] = w.listTok(rs, w.P.RecursiveKeys(ctx, true), true, ipfspin.Recursive)
	return d
}

// danglingTok: a batch query that walks the graphs of recursive pins with merkledag.Walk(Concurrent)
// while some reachable block is missing either fails with notfound or happens not to touch the
// missing block, depending on goroutine scheduling. Both outcomes are rendered as "dangling"; any
// other error is kept.
func (w *World) danglingTok(tok string) string {
	if strings.HasPrefix(tok, "E") && tok != "Enotfound" {
		return tok
	}
	if strings.HasPrefix(tok, "bad") {
		return tok
	}
	return "dangling"
}

func (d *Dump) Line() string {
	if d.Light {
		return "ip=" + strings.Join(d.IP, ",") + " ck=" + d.CK + " k51=" + d.K[[2]int{5, 1}] + " dk1=" + d.Lists[1] + " rk1=" + d.Lists[3]
	}
	var sb strings.Builder
	sb.WriteString("ip=" + strings.Join(d.IP, ","))
	for _, m := range QueryModes {
		fmt.Fprintf(&sb, " t%d=%s", m, strings.Join(d.T[m], ","))
	}
	sb.WriteString(" ck=" + d.CK)
	for _, m := range QueryModes {
		for nm := 0; nm < 2; nm++ {
			fmt.Fprintf(&sb, " k%d%d=%s", m, nm, d.K[[2]int{m, nm}])
		}
	}
	for i, n := range []string{"dk0", "dk1", "rk0", "rk1"} {
		sb.WriteString(" " + n + "=" + d.Lists[i])
	}
	return sb.String()
}

// PinFacts: the part of a dump that only depends on the explicit pin state (not on the DAG).
func (d *Dump) PinFacts() string {
	return strings.Join(d.T[0], ",") + " " + strings.Join(d.T[1], ",") + " " + d.Lists[1] + " " + d.Lists[3]
}

// PinnedAny: cid i counts as pinned (any way) per IsPinned.
func (d *Dump) PinnedAny(i int) (pinned bool, known bool) {
	t := d.IP[i]
	if strings.HasPrefix(t, "E") {
		return false, false
	}
	return t != "n", true
}

// ---------------------------------------------------------------- monitor: spec-level expectations

// SpecCheck compares a dump with the property's pin model (SpecR/SpecD + reachability). It returns
// (sig, detail) pairs. multi reports whether names may be ambiguous (ignored then).
func (w *World) SpecCheck(d *Dump) [][2]string {
	var fails [][2]string
	add := func(sig, format string, a ...any) { fails = append(fails, [2]string{sig, fmt.Sprintf(format, a...)}) }
	var roots []int
	for c := range w.SpecR {
		roots = append(roots, c)
	}
	sort.Ints(roots)
	dang := w.Dangling(roots)
	indirect := func(c int) (bool, []int) {
		var via []int
		for _, r := range roots {
			if w.ReachPlus(r, c) {
				via = append(via, r)
			}
		}
		return len(via) > 0, via
	}
	inSet := func(xs []int, x int) bool {
		for _, y := range xs {
			if y == x {
				return true
			}
		}
		return false
	}
	viaOK := func(tok string, via []int) bool {
		v, err := strconv.Atoi(tok[1:])
		return err == nil && inSet(via, v)
	}
	for c := 0; c < w.N; c++ {
		_, isR := w.SpecR[c]
		_, isD := w.SpecD[c]
		ind, via := indirect(c)
		// IsPinnedWithType Recursive / Direct / Internal / invalid
		if want := map[bool]string{true: "r", false: "n"}[isR]; d.T[0][c] != want {
			add("recursive-query", "IsPinnedWithType(%d,Recursive)=%s want %s", c, d.T[0][c], want)
		}
		if want := map[bool]string{true: "d", false: "n"}[isD]; d.T[1][c] != want {
			add("direct-query", "IsPinnedWithType(%d,Direct)=%s want %s", c, d.T[1][c], want)
		}
		if d.T[3][c] != "n" {
			add("internal-query", "IsPinnedWithType(%d,Internal)=%s", c, d.T[3][c])
		}
		if d.T[4][c] != "Einvalid" || d.T[6][c] != "Einvalid" {
			add("invalid-mode-query", "IsPinnedWithType(%d,4|6)=%s,%s", c, d.T[4][c], d.T[6][c])
		}
		// Indirect: reachable from a recursive root and not itself a recursive root
		t := d.T[2][c]
		if !(dang && t == "Enotfound") {
			switch {
			case isR && t != "n":
				add("indirect-root-reported", "IsPinnedWithType(%d,Indirect)=%s but %d is itself a recursive root", c, t, c)
			case !isR && ind && !(strings.HasPrefix(t, "i") && viaOK(t, via)):
				add("indirect-query", "IsPinnedWithType(%d,Indirect)=%s want indirect via one of %v", c, t, via)
			case !isR && !ind && t != "n":
				add("indirect-query", "IsPinnedWithType(%d,Indirect)=%s want n", c, t)
			}
		}
		// Any / IsPinned: recursive beats direct beats indirect
		for which, t := range []string{d.IP[c], d.T[5][c]} {
			if dang && t == "Enotfound" && !isR && !isD {
				continue
			}
			ok := false
			switch {
			case isR:
				ok = t == "r"
			case isD:
				ok = t == "d"
			case ind:
				ok = strings.HasPrefix(t, "i") && viaOK(t, via)
			default:
				ok = t == "n"
			}
			if !ok {
				add("any-query", "IsPinned/Any[%d](%d)=%s (R=%v D=%v indirect=%v)", which, c, t, isR, isD, ind)
			}
		}
	}
	// batch queries
	batch := func(label, tok string, mode int, names bool) {
		if tok == "dangling" && dang {
			return
		}
		var want []string
		for c := 0; c < w.N; c++ {
			nr, isR := w.SpecR[c]
			nd, isD := w.SpecD[c]
			ind, via := indirect(c)
			s := "n"
			nm := func(n int) string {
				if names {
					return "/" + strconv.Itoa(n)
				}
				return ""
			}
			switch mode {
			case 0:
				if isR {
					s = "r" + nm(nr)
				}
			case 1:
				if isD {
					s = "d" + nm(nd)
				}
			case 2:
				if !isR && ind {
					s = "i" + strconv.Itoa(via[0])
				}
			case 3:
			case 5:
				switch {
				case isR:
					s = "r" + nm(nr)
				case isD:
					s = "d" + nm(nd)
				case ind:
					s = "i" + strconv.Itoa(via[0])
				}
			}
			want = append(want, strconv.Itoa(c)+":"+s)
		}
		exp := strings.Join(want, ",")
		if mode == 4 || mode == 6 {
			exp = "Einvalid"
		}
		if tok != exp {
			add("batch-query", "%s=%s want %s", label, tok, exp)
		}
	}
	batch("CheckIfPinned", d.CK, 5, false)
	for _, m := range QueryModes {
		batch(fmt.Sprintf("CheckIfPinnedWithType(%d,false)", m), d.K[[2]int{m, 0}], m, false)
		batch(fmt.Sprintf("CheckIfPinnedWithType(%d,true)", m), d.K[[2]int{m, 1}], m, true)
	}
	// listings
	list := func(label, tok string, spec map[int]int, detailed bool, mc string) {
		var cs []int
		for c := range spec {
			cs = append(cs, c)
		}
		sort.Ints(cs)
		var want []string
		for _, c := range cs {
			s := strconv.Itoa(c)
			if detailed {
				s += ":" + mc + "/" + strconv.Itoa(spec[c])
			}
			want = append(want, s)
		}
		if exp := strings.Join(want, ","); tok != exp {
			add("listing", "%s=%s want %s", label, tok, exp)
		}
	}
	list("DirectKeys(false)", d.Lists[0], w.SpecD, false, "d")
	list("DirectKeys(true)", d.Lists[1], w.SpecD, true, "d")
	list("RecursiveKeys(false)", d.Lists[2], w.SpecR, false, "r")
	list("RecursiveKeys(true)", d.Lists[3], w.SpecR, true, "r")
	return fails
}

// ---------------------------------------------------------------- crash / reopen (C23)

// Recovered is what is observed on a pinner reopened on a crash image.
type Recovered struct {
	Rebuild string // writes made by New (index rebuild), canonical and sorted
	RawStr  string // /pins keyspace after reopen
	Raw     RawState
	D       *Dump
}

func (r *Recovered) Line() string { return "rb=" + r.Rebuild + " raw=" + r.RawStr + " " + r.D.Line() }

// Reopen opens a second real pinner on a copy of snap with ws applied, dumps it and closes it;
// the live pinner is untouched.
func (w *World) Reopen(snap map[string][]byte, ws []Write) *Recovered {
	st := FromSnapshot(snap, ws, w.IDs)
	p, err := dspinner.New(context.Background(), st, w.dserv)
	if err != nil {
		panic("dspinner.New on crash image: " + err.Error())
	}
	rb := st.Log
	st.Log = nil
	var cs []string
	for _, x := range rb {
		if x.Del {
			cs = append(cs, "-"+w.CanonKey(x.Key, nil))
		} else {
			cs = append(cs, "+"+w.CanonKey(x.Key, x.Val))
		}
	}
	sort.Slice(cs, func(i, j int) bool { return canonLess(cs[i][1:], cs[j][1:]) || (cs[i][1:] == cs[j][1:] && cs[i] < cs[j]) })
	liveP, liveS := w.P, w.Store
	w.P, w.Store = p, st
	defer func() { w.P, w.Store = liveP, liveS; p.Close() }()
	rec := &Recovered{Rebuild: "[" + strings.Join(cs, ";") + "]"}
	rec.Raw, rec.RawStr = w.Raw(st.Snapshot())
	rec.D = w.QueryLight()
	return rec
}

// RebuildWrites: the writes New makes when opened on snap + ws (in order).
func (w *World) RebuildWrites(snap map[string][]byte, ws []Write) []Write {
	st := FromSnapshot(snap, ws, w.IDs)
	p, err := dspinner.New(context.Background(), st, w.dserv)
	if err != nil {
		panic("dspinner.New on crash image: " + err.Error())
	}
	p.Close()
	return st.Log
}

// Plant deletes the pin record of the first pin of cid c in the index of the given mode directly in
// the datastore (as a partially lost write would): an index entry without its record.
func (w *World) Plant(c int, mode int) bool {
	rs, _ := w.Raw(w.Store.Snapshot())
	idx := rs.R
	if mode == 1 {
		idx = rs.D
	}
	ids := idx[c]
	if len(ids) == 0 {
		return false
	}
	sort.Slice(ids, func(i, j int) bool { return w.IDs.m[ids[i]] < w.IDs.m[ids[j]] })
	w.Store.MapDatastore.Delete(context.Background(), ds.NewKey("/pins/pin/"+ids[0]))
	return true
}

// CrashTo makes the crash image the live state (the history continues on the recovered pinner).
func (w *World) CrashTo(snap map[string][]byte, ws []Write) {
	w.Open(FromSnapshot(snap, ws, w.IDs))
}
