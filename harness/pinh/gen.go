package pinh

import (
	"fmt"
	"sort"
	"strconv"
	"strings"

	"verifharness/vh"
)

// GenDag draws a random DAG with sharing (node t links to later temp nodes), computes the real
// CIDs, renumbers the pool in the order in which the datastore lists the cid index entries
// (SortKey) and returns the `dag` op line.
func GenDag(r *vh.Rand, n int, missing bool) (string, [][]int) {
	tl := make([][]int, n)
	salt := make([]int, n)
	for t := 0; t < n; t++ {
		salt[t] = r.Intn(1000)*16 + t // unique per node
		if t == n-1 {
			break
		}
		k := 0
		switch r.Intn(6) {
		case 0:
			k = 0
		case 1, 2:
			k = 1
		case 3, 4:
			k = 2
		default:
			k = 3
		}
		for j := 0; j < k; j++ {
			tl[t] = append(tl[t], r.Range(t+1, n-1)) // duplicates allowed
		}
	}
	nodes := BuildNodes(tl, salt)
	order := make([]int, n) // new index -> temp index
	for i := range order {
		order[i] = i
	}
	sort.Slice(order, func(a, b int) bool { return SortKey(nodes[order[a]].Cid()) < SortKey(nodes[order[b]].Cid()) })
	newOf := make([]int, n)
	for ni, t := range order {
		newOf[t] = ni
	}
	links := make([][]int, n)
	toks := make([]string, n)
	for ni, t := range order {
		var ls []string
		for _, j := range tl[t] {
			links[ni] = append(links[ni], newOf[j])
			ls = append(ls, strconv.Itoa(newOf[j]))
		}
		flag := "+"
		if missing && r.Chance(1, 6) {
			flag = "!"
		}
		toks[ni] = fmt.Sprintf("%s%d:%s", flag, salt[t], strings.Join(ls, ","))
	}
	return fmt.Sprintf("dag %d %s", n, strings.Join(toks, " ")), links
}

var pinModes = []int{0, 1, 0, 1, 0, 1, 0, 1, 0, 2, 3, 4, 5, 7, -1}

// GenOps draws a history of mutation ops. The generator keeps a rough guess of what is pinned
// (assuming every op succeeds) so that unpin / update / re-pin mostly hit existing pins.
func GenOps(r *vh.Rand, n, m int, crash bool) []string {
	hot := []int{r.Intn(n), r.Intn(n), r.Intn(n)}
	guessR, guessD := map[int]bool{}, map[int]bool{}
	anyOf := func(set map[int]bool) (int, bool) {
		var ks []int
		for c := 0; c < n; c++ {
			if set[c] {
				ks = append(ks, c)
			}
		}
		if len(ks) == 0 {
			return 0, false
		}
		return vh.Pick(r, ks), true
	}
	cidOf := func() int {
		if r.Chance(3, 5) {
			return vh.Pick(r, hot)
		}
		return r.Intn(n)
	}
	pinnedOr := func(set map[int]bool, num, den int) int {
		if c, ok := anyOf(set); ok && r.Chance(num, den) {
			return c
		}
		return cidOf()
	}
	ctxOf := func() string {
		switch x := r.Intn(100); {
		case x < 5:
			return "pre"
		case x < 12:
			return "mid"
		}
		return "ok"
	}
	var ops []string
	planted := false
	for i := 0; i < m; i++ {
		var op string
		x := r.Intn(100)
		if crash && r.Chance(1, 14) { // corrupt the store: index entry without record (repair branch)
			c, md := pinnedOr(guessR, 1, 1), 0
			if r.Chance(1, 3) {
				c, md = pinnedOr(guessD, 1, 1), 1
			}
			ops = append(ops, fmt.Sprintf("plant %d %d", c, md))
			planted = true
			if r.Bool() { // and hit it at once
				ops = append(ops, vh.Pick(r, []string{
					fmt.Sprintf("crashall unpin %d 1 ok", c),
					fmt.Sprintf("crashall pin %d 1 %d ok", c, r.Intn(4)),
					fmt.Sprintf("crashall pinmode %d %d %d ok", c, r.Intn(2), r.Intn(4))}))
			}
			continue
		}
		if r.Chance(1, 12) { // autoSync off/on, explicit Flush
			op := vh.Pick(r, []string{"autosync 0", "autosync 0", "autosync 1", "flush", "flush"})
			if crash {
				op = "crashall " + op
			}
			ops = append(ops, op)
			continue
		}
		if !crash && r.Chance(1, 10) { // a second call inside the fetch window of a recursive Pin / an Update
			var a string
			var foc []int
			if r.Bool() {
				c := cidOf()
				a = fmt.Sprintf("pin %d 1 %d ok", c, r.Intn(4))
				foc = []int{c}
			} else {
				from, to := pinnedOr(guessR, 4, 5), cidOf()
				a = fmt.Sprintf("update %d %d %d ok", from, to, r.Intn(2))
				foc = []int{from, to}
			}
			bc := cidOf()
			if r.Chance(3, 4) {
				bc = vh.Pick(r, foc)
			}
			var b string
			switch r.Intn(5) {
			case 0:
				b = fmt.Sprintf("pin %d %d %d ok", bc, r.Intn(2), r.Intn(4))
			case 1:
				b = fmt.Sprintf("pinmode %d %d %d ok", bc, r.Intn(2), r.Intn(4))
			case 2, 3:
				b = fmt.Sprintf("unpin %d 1 ok", bc)
			default:
				b = fmt.Sprintf("update %d %d %d ok", bc, cidOf(), r.Intn(2))
			}
			ops = append(ops, "nested "+a+" ;; "+b, "q")
			guessR[foc[len(foc)-1]] = true
			continue
		}
		if i < 2 && r.Chance(3, 4) {
			x = r.Intn(54) // start with pins
		}
		switch {
		case x < 40:
			c, rec := cidOf(), r.Intn(2)
			if r.Chance(1, 4) { // re-pin / upgrade an existing pin
				c = pinnedOr(guessD, 1, 2)
				if r.Bool() {
					c = pinnedOr(guessR, 1, 1)
				}
			}
			op = fmt.Sprintf("pin %d %d %d %s", c, rec, r.Intn(4), ctxOf())
			if rec == 1 {
				guessR[c] = true
				delete(guessD, c)
			} else if !guessR[c] {
				guessD[c] = true
			}
		case x < 54:
			c, md := cidOf(), vh.Pick(r, pinModes)
			op = fmt.Sprintf("pinmode %d %d %d %s", c, md, r.Intn(4), ctxOf())
			if md == 0 {
				guessR[c] = true
				delete(guessD, c)
			} else if md == 1 && !guessR[c] {
				guessD[c] = true
			}
		case x < 74:
			c, rec := cidOf(), r.Intn(2)
			if r.Chance(2, 3) {
				if r.Bool() {
					c, rec = pinnedOr(guessR, 1, 1), 1
					if r.Chance(1, 5) {
						rec = 0
					}
				} else {
					c = pinnedOr(guessD, 1, 1)
				}
			}
			op = fmt.Sprintf("unpin %d %d %s", c, rec, ctxOf())
			if rec == 1 || !guessR[c] {
				delete(guessR, c)
				delete(guessD, c)
			}
		case x < 92:
			from, to, un := pinnedOr(guessR, 4, 5), cidOf(), r.Intn(2)
			op = fmt.Sprintf("update %d %d %d %s", from, to, un, ctxOf())
			if guessR[from] && from != to {
				guessR[to] = true
				if un == 1 {
					delete(guessR, from)
				}
			}
		default:
			if !crash {
				ops = append(ops, "q")
			}
			continue
		}
		if crash {
			if r.Chance(1, 8) {
				op = fmt.Sprintf("crash2 %d %d %s", r.Intn(9), r.Intn(5), op)
			} else if r.Chance(1, 6) && !planted {
				// (stepIO is derived from the undisturbed log; with the mid-call flush of the repair
				// branch a failed flag write changes which later flag writes happen)
				op = fmt.Sprintf("io %d %s", r.Intn(9), op)
			} else if r.Chance(1, 4) {
				op = fmt.Sprintf("crashat %d %s", r.Intn(9), op)
			} else {
				op = "crashall " + op
			}
			ops = append(ops, op)
			continue
		}
		ops = append(ops, op)
		if r.Chance(2, 3) {
			ops = append(ops, "q")
		}
	}
	if !crash {
		ops = append(ops, "q")
	}
	return ops
}
