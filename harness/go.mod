module verifharness

go 1.25.7

require github.com/ipfs/boxo v0.0.0

replace github.com/ipfs/boxo => /repo
