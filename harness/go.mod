module verifharness

go 1.25.7

require (
	github.com/ipfs/boxo v0.0.0
	github.com/multiformats/go-multihash v0.2.3
)

require (
	github.com/klauspost/cpuid/v2 v2.3.0 // indirect
	github.com/mr-tron/base58 v1.3.0 // indirect
	github.com/multiformats/go-varint v0.1.0 // indirect
	github.com/spaolacci/murmur3 v1.1.0 // indirect
	golang.org/x/crypto v0.54.0 // indirect
	golang.org/x/sys v0.47.0 // indirect
	lukechampine.com/blake3 v1.4.1 // indirect
)

replace github.com/ipfs/boxo => /repo
