package dirx

import (
	"encoding/binary"
	"fmt"
	"strings"
	"sync"

	"verifharness/vh"
)

// NameH is a directory entry name with the HAMT hash the case uses for it.
type NameH struct {
	Name string
	Hash string // 16 hex digits
}

func (n NameH) Tok() string { return vh.Hex([]byte(n.Name)) + " " + n.Hash }

var (
	candOnce sync.Once
	cands    []NameH
	candU    []uint64
	// groups[bits] = lists of candidate indices sharing the top `bits` bits of murmur3 (>= 2 members)
	groups = map[int][][]int{}
)

func buildCands() {
	const n = 60000
	cands = make([]NameH, n)
	candU = make([]uint64, n)
	for i := 0; i < n; i++ {
		nm := fmt.Sprintf("f%d", i)
		if i%7 == 3 {
			nm = fmt.Sprintf("файл-%d.txt", i)
		}
		h := Murmur(nm)
		cands[i] = NameH{nm, HashHex(h)}
		candU[i] = binary.BigEndian.Uint64(h)
	}
	for _, bits := range []int{6, 8, 9, 10, 12, 14, 15, 16, 18, 20, 21, 24, 27, 28, 30} {
		m := map[uint64][]int{}
		for i, u := range candU {
			k := u >> uint(64-bits)
			m[k] = append(m[k], i)
		}
		var gs [][]int
		for i := range candU { // deterministic order
			k := candU[i] >> uint(64-bits)
			if g := m[k]; len(g) >= 2 && g[0] == i {
				gs = append(gs, g)
			}
		}
		groups[bits] = gs
	}
}

// MurmurPool returns names with their production hashes; some of them share 1..3 levels of
// `lg2`-bit digits (found by search over 60000 candidate names), plus short and long names.
func MurmurPool(r *vh.Rand, lg2, n int) []NameH {
	candOnce.Do(buildCands)
	var out []NameH
	seen := map[string]bool{}
	add := func(x NameH) {
		if !seen[x.Name] {
			seen[x.Name] = true
			out = append(out, x)
		}
	}
	for len(out) < n {
		switch r.Intn(8) {
		case 0, 1, 2: // colliding group
			lv := r.Range(1, 4)
			bits := lv * lg2
			for bits > 30 || groups[bits] == nil {
				if bits <= lg2 {
					break
				}
				bits -= lg2
			}
			gs := groups[bits]
			if len(gs) == 0 {
				add(cands[r.Intn(len(cands))])
				continue
			}
			g := gs[r.Intn(len(gs))]
			for j, idx := range g {
				if j >= 4 {
					break
				}
				add(cands[idx])
			}
		case 3: // one-byte name
			nm := string([]byte{byte('a' + r.Intn(26))})
			add(NameH{nm, HashHex(Murmur(nm))})
		case 4: // long name
			nm := strings.Repeat(string([]byte{byte('A' + r.Intn(26))}), r.Range(100, 255))
			add(NameH{nm, HashHex(Murmur(nm))})
		default:
			add(cands[r.Intn(len(cands))])
		}
	}
	return out[:n]
}

// TablePool invents hashes: names share random-length bit prefixes, a few share the whole hash
// (reaching the "sharded directory too deep" error), which murmur3 cannot be made to do.
func TablePool(r *vh.Rand, n int, full bool) []NameH {
	var out []NameH
	base := r.U64()
	for i := 0; i < n; i++ {
		var nm string
		switch r.Intn(6) {
		case 0:
			nm = fmt.Sprintf("%c%d", 'a'+r.Intn(26), i)
		case 1:
			nm = strings.Repeat("L", r.Range(60, 255)) + fmt.Sprint(i)
		default:
			nm = fmt.Sprintf("t%d-%d", i, r.Intn(1000))
		}
		var u uint64
		switch {
		case full && i > 0 && r.Chance(1, 6):
			u = base // full 64-bit collision
		case r.Chance(1, 2):
			keep := uint(r.Range(1, 63)) // shares `keep` top bits with base
			u = (base &^ (^uint64(0) >> keep)) | (r.U64() >> keep)
		case i > 0 && r.Chance(1, 3):
			keep := uint(r.Range(1, 63))
			var prev uint64
			fmt.Sscanf(out[r.Intn(len(out))].Hash, "%x", &prev)
			u = (prev &^ (^uint64(0) >> keep)) | (r.U64() >> keep)
		default:
			u = r.U64()
		}
		var b [8]byte
		binary.BigEndian.PutUint64(b[:], u)
		out = append(out, NameH{nm, HashHex(b[:])})
	}
	return out
}

func AddTok(n NameH, p *PoolNode) string {
	return fmt.Sprintf("add %s %s %d %d", n.Tok(), p.Cid, p.CidLen, p.Tsize)
}

func varintLen(v uint64) int {
	n := 1
	for v >= 0x80 {
		v >>= 7
		n++
	}
	return n
}

// LinkSerializedSize is the dag-pb size of one link (generator-side arithmetic, used only to place
// thresholds near the boundary).
func LinkSerializedSize(nameLen, cidLen int, tsize uint64) int {
	l := 1 + varintLen(uint64(cidLen)) + cidLen + 1 + varintLen(uint64(nameLen)) + nameLen + 1 + varintLen(tsize)
	return 1 + varintLen(uint64(l)) + l
}
