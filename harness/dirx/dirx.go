// Package dirx is the shared part of the C15 / C16 harnesses: it drives the REAL UnixFS directory
// implementations (BasicDirectory, HAMTDirectory, DynamicDirectory over hamt.Shard) in-process and
// prints the canonical line protocol that Drivers/C15.lean and Drivers/C16.lean reproduce from the
// Lean model (lean/BoxoModel/C15/*).
//
// Ops (one output line each; <name> is hex, <hash> the 16-hex-digit HAMT hash of the name):
//
//	cfg <globalThreshold> <globalMode 0|1|2> <defaultWidth> <hash murmur|table>
//	new <basic|hamt|dyn> <maxLinks> <fanout 0=unset> <mode -|0|1|2> <perDirThreshold> <statMode octal> <sec> <nsec> <builder -|v0|v1>
//	add <name> <hash> <cid> <cidLen> <tsize>      AddChild(name, pool node with that cid)
//	rm <name> <hash>                              RemoveChild
//	find <name> <hash>                            Find
//	list | async | each                           Links() | EnumLinksAsync | ForEachLink
//	node                                          GetNode(): dump of the serialized DAG
//	reload                                        NewDirectoryFromNode(GetNode())
//	setmaxlinks n | setfanout n | setmode m | setthr n | setstat <octal> <sec> <nsec>
//	dump                                          private state incl. the in-memory trie (verif hook)
//	fresh                                         canonical fresh build of the current entries under the
//	                                              case's configuration: same|diff root
//
// Mutating ops answer `<result> | <short state>`; the monitors (Go-side map oracle, rule, settings,
// CID determinism) are evaluated independently of the model.
package dirx

import (
	"context"
	"encoding/binary"
	"encoding/hex"
	"errors"
	"fmt"
	"os"
	"sort"
	"strconv"
	"strings"
	"time"

	"github.com/ipfs/boxo/files"
	mdag "github.com/ipfs/boxo/ipld/merkledag"
	mdtest "github.com/ipfs/boxo/ipld/merkledag/test"
	ft "github.com/ipfs/boxo/ipld/unixfs"
	"github.com/ipfs/boxo/ipld/unixfs/hamt"
	uio "github.com/ipfs/boxo/ipld/unixfs/io"
	"github.com/ipfs/go-cid"
	ipld "github.com/ipfs/go-ipld-format"
	logging "github.com/ipfs/go-log/v2"
	mh "github.com/multiformats/go-multihash"
	"github.com/spaolacci/murmur3"

	"verifharness/vh"
)

func init() { logging.SetLogLevel("*", "fatal") }

// ------------------------------------------------------------------ child node pool

type PoolNode struct {
	Node   ipld.Node
	Cid    string
	CidLen int
	Tsize  uint64
}

var (
	Pool     []PoolNode
	poolByID = map[string]*PoolNode{}
)

func builderFor(tok string) cid.Builder {
	switch tok {
	case "v0":
		return cid.Prefix{Version: 0, Codec: cid.DagProtobuf, MhType: mh.SHA2_256, MhLength: -1}
	case "v1":
		return cid.Prefix{Version: 1, Codec: cid.DagProtobuf, MhType: mh.SHA2_256, MhLength: -1}
	case "v1-512":
		return cid.Prefix{Version: 1, Codec: cid.DagProtobuf, MhType: mh.SHA2_512, MhLength: -1}
	case "v1-id":
		return cid.Prefix{Version: 1, Codec: cid.DagProtobuf, MhType: mh.IDENTITY, MhLength: -1}
	}
	return nil
}

func init() {
	// 0..7 v0, 8..15 v1, 16..19 sha2-512, 20..27 identity (short CIDs of different lengths), 28..31 big Tsize
	mk := func(data []byte, b string, extra uint64) {
		nd := mdag.NodeWithData(data)
		if extra > 0 {
			leaf := mdag.NodeWithData([]byte("leaf"))
			nd.AddRawLink("x", &ipld.Link{Cid: leaf.Cid(), Size: extra})
		}
		if err := nd.SetCidBuilder(builderFor(b)); err != nil {
			panic(err)
		}
		sz, _ := nd.Size()
		c := nd.Cid()
		Pool = append(Pool, PoolNode{Node: nd, Cid: c.String(), CidLen: len(c.Bytes()), Tsize: sz})
	}
	for i := 0; i < 8; i++ {
		mk([]byte{'a', byte(i)}, "v0", 0)
	}
	for i := 0; i < 8; i++ {
		mk([]byte{'b', byte(i)}, "v1", 0)
	}
	for i := 0; i < 4; i++ {
		mk([]byte{'c', byte(i)}, "v1-512", 0)
	}
	for i := 0; i < 8; i++ {
		mk([]byte(strings.Repeat("z", i*3)), "v1-id", 0)
	}
	for i, ex := range []uint64{100, 20000, 3000000, 1 << 40} {
		mk([]byte{'d', byte(i)}, "v1", ex)
	}
	for i := range Pool {
		poolByID[Pool[i].Cid] = &Pool[i]
	}
}

// Murmur is the production HAMT hash (hamt.murmur3Hash), imported directly.
func Murmur(name string) []byte {
	h := murmur3.New64()
	h.Write([]byte(name))
	return h.Sum(nil)
}

func HashHex(b []byte) string { return hex.EncodeToString(b) }

// ------------------------------------------------------------------ execution

type config struct {
	kind     string
	maxLinks int
	fanout   int
	pmode    string
	pthr     int
	statMode uint32
	sec      int64
	nsec     int
	builder  string
}

type Exec struct {
	ctx     context.Context
	dserv   ipld.DAGService
	d       uio.Directory
	cfg     config            // configuration in force (new + set* ops), used by `fresh` and the rule monitor
	oracle  map[string]string // name -> cid : the property's own map model
	table   map[string][]byte // name -> hash for table-hash cases
	restore func()
	o       *vh.Out
	// C16 monitors enabled
	Rule bool
	// statistics for the non-triviality rule
	mutOK int
	// the previous rule check found a basic directory above the rule
	aboveBefore bool
	// sticky: the directory is sharded below the rule because of the link-count clause
	belowMaxlinks bool
	// fault injection: the DAG service refuses this sub-shard block (after `faultreload`)
	last    opInfo          // what the rule monitor needs to know about the operation just performed
	plain   ipld.DAGService // the un-faulted service (observation only)
	fault   *faultDS
	findHit bool
	bigList bool
}

func mtimeOf(sec int64, nsec int) time.Time {
	if sec == 0 && nsec == 0 {
		return time.Time{}
	}
	return time.Unix(sec, int64(nsec))
}

func (c config) opts() []uio.DirectoryOption {
	var opts []uio.DirectoryOption
	if c.maxLinks != 0 {
		opts = append(opts, uio.WithMaxLinks(c.maxLinks))
	}
	if c.fanout != 0 {
		opts = append(opts, uio.WithMaxHAMTFanout(c.fanout))
	}
	if c.pmode != "-" {
		opts = append(opts, uio.WithSizeEstimationMode(uio.SizeEstimationMode(vh.Atoi(c.pmode))))
	}
	if c.statMode != 0 || c.sec != 0 || c.nsec != 0 {
		opts = append(opts, uio.WithStat(os.FileMode(c.statMode), mtimeOf(c.sec, c.nsec)))
	}
	if c.builder != "-" {
		opts = append(opts, uio.WithCidBuilder(builderFor(c.builder)))
	}
	return opts
}

func (c config) build(dserv ipld.DAGService) (uio.Directory, error) {
	var d uio.Directory
	var err error
	switch c.kind {
	case "basic":
		d, err = uio.NewBasicDirectory(dserv, c.opts()...)
	case "hamt":
		d, err = uio.NewHAMTDirectory(dserv, 0, c.opts()...)
	default:
		d, err = uio.NewDirectory(dserv, c.opts()...)
	}
	if err != nil {
		return nil, err
	}
	if c.pthr != 0 {
		d.SetHAMTShardingSize(c.pthr)
	}
	return d, nil
}

func errTok(err error) string {
	switch {
	case err == nil:
		return "ok"
	case errors.Is(err, errFault):
		return "fault"
	case errors.Is(err, os.ErrNotExist):
		return "notfound"
	case strings.Contains(err.Error(), "maxLinks reached"):
		return "maxlinks"
	case strings.Contains(err.Error(), "too deep"):
		return "toodeep"
	case errors.Is(err, uio.ErrInvalidHAMTFanout):
		return "invalid"
	}
	return "err:" + strings.ReplaceAll(err.Error(), " ", "_")
}

func builderTok(b cid.Builder) string {
	if b == nil {
		return "nil"
	}
	var p cid.Prefix
	switch x := b.(type) {
	case cid.Prefix:
		p = x
	case *cid.Prefix:
		p = *x
	case cid.V0Builder:
		return "v0"
	case cid.V1Builder:
		return "v1"
	default:
		return "other"
	}
	return "v" + strconv.Itoa(int(p.Version))
}

// state is the short state printed after every mutating op (hook; the tree is cut off).
func (e *Exec) state(full bool) string {
	s := uio.VerifDirsState(e.ctx, e.d)
	if !full {
		if i := strings.Index(s, " tree="); i >= 0 {
			s = s[:i]
		}
	}
	b := "nil"
	if bb := e.d.GetCidBuilder(); bb != nil {
		b = builderTok(bb)
	}
	return s + " b=" + b
}

func (e *Exec) kindNow() string {
	s := uio.VerifDirsState(e.ctx, e.d)
	return s[:strings.IndexByte(s, ' ')]
}

type entry struct {
	name string
	cid  string
	size uint64
}

func fmtEntries(es []entry, sorted bool) string {
	if sorted {
		sort.Slice(es, func(i, j int) bool { return es[i].name < es[j].name })
	}
	var sb strings.Builder
	fmt.Fprintf(&sb, "%d:", len(es))
	for i, x := range es {
		if i > 0 {
			sb.WriteByte(',')
		}
		fmt.Fprintf(&sb, "%s=%s/%d", vh.Hex([]byte(x.name)), x.cid, x.size)
	}
	return sb.String()
}

// checkListing is the map-property monitor for the enumeration APIs.
func (e *Exec) checkListing(api string, es []entry) {
	if len(es) >= 2 {
		e.bigList = true
	}
	if len(es) != len(e.oracle) {
		e.o.Fail("listing-"+api, "%s returned %d entries, map has %d", api, len(es), len(e.oracle))
		return
	}
	seen := map[string]bool{}
	for _, x := range es {
		if seen[x.name] || e.oracle[x.name] != x.cid {
			e.o.Fail("listing-"+api, "%s entry %q=%s, map has %q", api, x.name, x.cid, e.oracle[x.name])
			return
		}
		seen[x.name] = true
	}
}

func (e *Exec) setHash(name string, hashHex string) {
	if e.table == nil {
		// murmur cases: the op line must carry the production hash
		if HashHex(Murmur(name)) != hashHex {
			panic("dirx: op line hash is not murmur3 of the name")
		}
		return
	}
	b, _ := hex.DecodeString(hashHex)
	e.table[name] = b
}

// Run executes one case.
func Run(c vh.Case, o *vh.Out, rule bool) {
	e := &Exec{ctx: context.Background(), o: o, Rule: rule}
	savedThr, savedMode, savedW := uio.HAMTShardingSize, uio.HAMTSizeEstimation, uio.DefaultShardWidth
	defer func() {
		uio.HAMTShardingSize, uio.HAMTSizeEstimation, uio.DefaultShardWidth = savedThr, savedMode, savedW
		if e.restore != nil {
			e.restore()
		}
	}()
	for _, line := range c.Ops {
		e.step(strings.Fields(line))
	}
	// C15's rule (C16 marks its cases in `fresh`): at least four successful mutations, a look-up that
	// hit and a listing of two or more entries
	if !rule && e.mutOK >= 4 && e.findHit && e.bigList {
		o.Nontrivial()
	}
}

func (e *Exec) need() bool {
	if e.d == nil {
		e.o.Emit("bad-op")
		return false
	}
	return true
}

func (e *Exec) step(f []string) {
	o := e.o
	if len(f) == 0 {
		o.Emit("bad-op")
		return
	}
	switch f[0] {
	case "cfg":
		uio.HAMTShardingSize = vh.Atoi(f[1])
		uio.HAMTSizeEstimation = uio.SizeEstimationMode(vh.Atoi(f[2]))
		uio.DefaultShardWidth = vh.Atoi(f[3])
		if e.restore != nil {
			e.restore()
			e.restore = nil
		}
		e.table = nil
		if f[4] == "table" {
			e.table = map[string][]byte{}
			tbl := e.table
			e.restore = hamt.VerifDirsSetHashFunction(func(val []byte) []byte {
				if h, ok := tbl[string(val)]; ok {
					return h
				}
				panic("dirx: name without a hash in table mode: " + string(val))
			})
			o.Kind("hash-table")
		} else {
			o.Kind("hash-murmur")
		}
		o.Kind("gmode" + f[2])
		o.Emit("ok")
	case "new":
		st, _ := strconv.ParseUint(f[6], 8, 32)
		sec, _ := strconv.ParseInt(f[7], 10, 64)
		e.cfg = config{kind: f[1], maxLinks: vh.Atoi(f[2]), fanout: vh.Atoi(f[3]), pmode: f[4], pthr: vh.Atoi(f[5]),
			statMode: uint32(st), sec: sec, nsec: vh.Atoi(f[8]), builder: f[9]}
		e.plain = mdtest.Mock()
		for i := range Pool {
			e.plain.Add(e.ctx, Pool[i].Node)
		}
		// every directory works through the fault-injecting wrapper (inert until `fault` / `faultreload`)
		e.fault = &faultDS{DAGService: e.plain}
		e.dserv = e.fault
		e.oracle = map[string]string{}
		e.aboveBefore = false
		e.belowMaxlinks = false
		d, err := e.cfg.build(e.dserv)
		if err != nil {
			e.d = nil
			o.Kind("new-" + errTok(err))
			o.Emit("%s", errTok(err))
			return
		}
		e.d = d
		o.Kind("new-" + f[1])
		if e.cfg.pmode != "-" {
			o.Kind("pmode" + e.cfg.pmode)
		}
		o.Emit("ok | %s", e.state(false))
	case "add":
		if !e.need() {
			return
		}
		name := string(vh.UnHex(f[1]))
		e.setHash(name, f[2])
		pn := poolByID[f[3]]
		if pn == nil || pn.CidLen != vh.Atoi(f[4]) || strconv.FormatUint(pn.Tsize, 10) != f[5] {
			panic("dirx: add operands do not match the pool")
		}
		before := e.settings()
		kb := e.kindNow()
		e.prepOp(name, pn)
		err := e.d.AddChild(e.ctx, name, pn.Node)
		e.last.ok = err == nil
		r := errTok(err)
		_, existed := e.oracle[name]
		if err == nil {
			e.mutOK++
			e.oracle[name] = pn.Cid
			if existed {
				o.Kind("add-replace")
			} else {
				o.Kind("add-new")
			}
		} else {
			o.Kind("add-" + r)
			// map property: adding can only fail for the documented reasons
			switch {
			case r == "fault" && e.faultActive():
			case r == "maxlinks" && kb == "hamt":
				o.Fail("hamt-switch-maxlinks", "AddChild(%q) on a HAMT directory failed with maxLinks reached (aborted HAMT->basic conversion)", name)
			case r == "maxlinks" && kb == "basic" && !existed && !(before.maxLinks > 0 && len(e.oracle)+1 > before.maxLinks):
				o.Fail("add-refused-below-limit", "AddChild(%q) refused with maxLinks reached: %d entries, limit %d", name, len(e.oracle), before.maxLinks)
			case !(r == "maxlinks" && kb == "basic" && !existed) && r != "toodeep":
				o.Fail("add-error", "AddChild(%q) failed: %s", name, r)
			}
		}
		e.after("add", kb, before)
		o.Emit("%s | %s", r, e.state(false))
	case "rm":
		if !e.need() {
			return
		}
		name := string(vh.UnHex(f[1]))
		e.setHash(name, f[2])
		before := e.settings()
		kb := e.kindNow()
		e.prepOp(name, nil)
		err := e.d.RemoveChild(e.ctx, name)
		e.last.ok = err == nil
		r := errTok(err)
		_, existed := e.oracle[name]
		switch {
		case r == "fault" && e.faultActive():
		case r == "maxlinks" && kb == "hamt":
			o.Fail("hamt-switch-maxlinks", "RemoveChild(%q) on a HAMT directory failed with maxLinks reached (aborted HAMT->basic conversion)", name)
		case existed && err != nil:
			o.Fail("rm-existing-"+r, "RemoveChild(%q) of an existing name failed: %s", name, r)
		case !existed && r != "notfound":
			o.Fail("rm-missing-"+r, "RemoveChild(%q) of a missing name returned %s", name, r)
		}
		if err == nil {
			e.mutOK++
			delete(e.oracle, name)
			o.Kind("rm-hit")
		} else {
			o.Kind("rm-" + r)
		}
		e.after("rm", kb, before)
		o.Emit("%s | %s", r, e.state(false))
	case "find":
		if !e.need() {
			return
		}
		name := string(vh.UnHex(f[1]))
		e.setHash(name, f[2])
		nd, err := e.d.Find(e.ctx, name)
		want, existed := e.oracle[name]
		if err != nil {
			if e.faultActive() && errTok(err) == "fault" {
				o.Kind("find-fault")
				o.Emit("fault")
				return
			}
			if existed || errTok(err) != "notfound" {
				o.Fail("find", "Find(%q)=%s, map has %q", name, errTok(err), want)
			}
			o.Kind("find-miss")
			o.Emit("%s", errTok(err))
			return
		}
		if !existed || nd.Cid().String() != want {
			o.Fail("find", "Find(%q)=%s, map has %q", name, nd.Cid(), want)
		}
		o.Kind("find-hit")
		e.findHit = true
		o.Emit("%s", nd.Cid().String())
	case "list":
		if !e.need() {
			return
		}
		ls, err := e.d.Links(e.ctx)
		if err != nil {
			// enumeration APIs: either an error is reported or the listing is the complete map
			if !(e.faultActive() && errTok(err) == "fault") {
				o.Fail("listing-links", "Links: %v", err)
			}
			o.Kind("list-" + errTok(err))
			o.Emit("%s", errTok(err))
			return
		}
		es := toEntries(ls)
		e.checkListing("links", es)
		o.Emit("%s", fmtEntries(es, true))
	case "async":
		if !e.need() {
			return
		}
		var es []entry
		var ferr error
		for r := range e.d.EnumLinksAsync(e.ctx) {
			if r.Err != nil {
				ferr = r.Err
				continue
			}
			es = append(es, entry{r.Link.Name, r.Link.Cid.String(), r.Link.Size})
		}
		if ferr != nil {
			if !(e.faultActive() && errTok(ferr) == "fault") {
				o.Fail("listing-async", "EnumLinksAsync: %v", ferr)
			}
			o.Kind("async-" + errTok(ferr))
			o.Emit("%s", errTok(ferr))
			return
		}
		e.checkListing("async", es)
		o.Emit("%s", fmtEntries(es, true))
	case "each":
		if !e.need() {
			return
		}
		var es []entry
		err := e.d.ForEachLink(e.ctx, func(l *ipld.Link) error {
			es = append(es, entry{l.Name, l.Cid.String(), l.Size})
			return nil
		})
		if err != nil {
			if !(e.faultActive() && errTok(err) == "fault") {
				o.Fail("listing-each", "ForEachLink: %v", err)
			}
			o.Kind("each-" + errTok(err))
			o.Emit("%s", errTok(err))
			return
		}
		e.checkListing("each", es)
		o.Kind("each-" + e.kindNow())
		o.Emit("%s", fmtEntries(es, e.kindNow() == "basic"))
	case "node":
		if !e.need() {
			return
		}
		nd, err := e.d.GetNode()
		if err != nil {
			o.Emit("%s", errTok(err))
			return
		}
		e.checkDigitPaths(nd, nil)
		o.Emit("%s", DumpDag(e.ctx, e.plainDS(), nd))
	case "reload":
		if !e.need() {
			return
		}
		nd, err := e.d.GetNode()
		if err == nil {
			err = e.dserv.Add(e.ctx, nd)
		}
		if err != nil {
			o.Emit("%s", errTok(err))
			return
		}
		d2, err := uio.NewDirectoryFromNode(e.dserv, nd)
		if err != nil {
			o.Fail("reload", "NewDirectoryFromNode: %v", err)
			o.Emit("%s", errTok(err))
			return
		}
		// Reloading yields the same entries (checked right here through a non-mutating listing).
		ls, err := d2.Links(e.ctx)
		if err != nil {
			o.Fail("reload", "Links after reload: %v", err)
		} else {
			e.d = d2
			e.checkListing("reload", toEntries(ls))
		}
		e.d = d2
		e.cfg.kind = "dyn"
		e.cfg.maxLinks, e.cfg.fanout, e.cfg.pmode, e.cfg.pthr = 0, 0, "-", 0
		o.Kind("reload-" + e.kindNow())
		o.Emit("ok | %s", e.state(false))
	case "faultreload":
		// reload from the root node through a DAG service that refuses the k-th sub-shard block
		// (DFS pre-order of the serialised DAG; no sub-shard: plain reload)
		if !e.need() {
			return
		}
		nd, err := e.d.GetNode()
		if err == nil {
			err = e.dserv.Add(e.ctx, nd)
		}
		if err != nil {
			o.Emit("%s", errTok(err))
			return
		}
		var subs []cid.Cid
		var paths []string
		collectSubShards(e.ctx, e.plainDS(), nd, "", &subs, &paths)
		where := "-"
		if len(subs) > 0 {
			k := vh.Atoi(f[1]) % len(subs)
			e.fault.bad = subs[k]
			where = paths[k]
			o.Kind("fault-injected")
		}
		d2, err := uio.NewDirectoryFromNode(e.dserv, nd)
		if err != nil {
			o.Fail("reload", "NewDirectoryFromNode: %v", err)
			o.Emit("%s", errTok(err))
			return
		}
		e.d = d2
		e.cfg.kind = "dyn"
		e.cfg.maxLinks, e.cfg.fanout, e.cfg.pmode, e.cfg.pthr = 0, 0, "-", 0
		o.Emit("ok fault=%s | %s", where, e.state(false))
	case "fault":
		// make the k-th sub-shard block (DFS pre-order of the current serialisation) unavailable from now on,
		// without reloading: only a sub-shard that is still an unloaded link in memory is affected
		if !e.need() {
			return
		}
		nd, err := e.d.GetNode()
		if err != nil {
			o.Emit("%s", errTok(err))
			return
		}
		var subs []cid.Cid
		var paths []string
		collectSubShards(e.ctx, e.plainDS(), nd, "", &subs, &paths)
		where := "-"
		if len(subs) > 0 {
			k := vh.Atoi(f[1]) % len(subs)
			e.fault.bad = subs[k]
			where = paths[k]
			o.Kind("fault-injected-live")
		}
		o.Emit("ok fault=%s", where)
	case "unfault":
		if !e.need() {
			return
		}
		e.fault.bad = cid.Undef
		o.Emit("ok")
	case "setmaxlinks":
		if !e.need() {
			return
		}
		e.d.SetMaxLinks(vh.Atoi(f[1]))
		e.cfg.maxLinks = vh.Atoi(f[1])
		o.Emit("ok | %s", e.state(false))
	case "setfanout":
		if !e.need() {
			return
		}
		e.d.SetMaxHAMTFanout(vh.Atoi(f[1]))
		e.cfg.fanout = vh.Atoi(f[1])
		o.Emit("ok | %s", e.state(false))
	case "setmode":
		if !e.need() {
			return
		}
		e.d.SetSizeEstimationMode(uio.SizeEstimationMode(vh.Atoi(f[1])))
		e.cfg.pmode = f[1]
		o.Emit("ok | %s", e.state(false))
	case "setthr":
		if !e.need() {
			return
		}
		e.d.SetHAMTShardingSize(vh.Atoi(f[1]))
		e.cfg.pthr = vh.Atoi(f[1])
		o.Emit("ok | %s", e.state(false))
	case "setstat":
		if !e.need() {
			return
		}
		st, _ := strconv.ParseUint(f[1], 8, 32)
		sec, _ := strconv.ParseInt(f[2], 10, 64)
		e.d.SetStat(os.FileMode(st), mtimeOf(sec, vh.Atoi(f[3])))
		o.Emit("ok | %s", e.state(false))
	case "dump":
		if !e.need() {
			return
		}
		o.Emit("%s", e.state(true))
	case "fresh":
		if !e.need() {
			return
		}
		e.fresh()
	default:
		o.Emit("bad-op")
	}
}

func toEntries(ls []*ipld.Link) []entry {
	es := make([]entry, 0, len(ls))
	for _, l := range ls {
		es = append(es, entry{l.Name, l.Cid.String(), l.Size})
	}
	return es
}

// ------------------------------------------------------------------ C16 monitors

// opInfo: did the operation succeed; its exact size delta in the estimation mode in force (bare
// names); HAMTDirectory.sizeChange before it (hook).
type opInfo struct {
	ok        bool
	exactOp   int
	chgBefore int
	haveChg   bool
}

func (e *Exec) entrySize(name string, pn *PoolNode) int {
	if e.d.GetSizeEstimationMode() == uio.SizeEstimationBlock {
		return LinkSerializedSize(len(name), pn.CidLen, pn.Tsize)
	}
	return len(name) + pn.CidLen
}

func (e *Exec) prepOp(name string, add *PoolNode) {
	e.last = opInfo{}
	if old, ok := e.oracle[name]; ok {
		e.last.exactOp -= e.entrySize(name, poolByID[old])
	}
	if add != nil {
		e.last.exactOp += e.entrySize(name, add)
	}
	st := uio.VerifDirsState(e.ctx, e.d)
	if strings.HasPrefix(st, "hamt chg=") {
		f := strings.Fields(st)
		if v, err := strconv.Atoi(strings.TrimPrefix(f[1], "chg=")); err == nil {
			e.last.chgBefore, e.last.haveChg = v, true
		}
	}
}

type settings struct {
	maxLinks, fanout, thr int
	mode                  uio.SizeEstimationMode
	builder               string
}

func (e *Exec) settings() settings {
	return settings{e.d.GetMaxLinks(), e.d.GetMaxHAMTFanout(), e.d.GetHAMTShardingSize(), e.d.GetSizeEstimationMode(), builderTok(e.d.GetCidBuilder())}
}

func (e *Exec) effThr() int {
	if t := e.d.GetHAMTShardingSize(); t > 0 {
		return t
	}
	return uio.HAMTShardingSize
}

// ruleSize is the documented size estimate of the current entry set, computed from scratch.
func (e *Exec) ruleSize(mode uio.SizeEstimationMode) int {
	switch mode {
	case uio.SizeEstimationLinks:
		s := 0
		for n, c := range e.oracle {
			s += len(n) + poolByID[c].CidLen
		}
		return s
	case uio.SizeEstimationBlock:
		// exact size of the dag-pb block of a basic directory with these entries
		nd := ft.EmptyDirNode()
		if e.cfg.statMode != 0 || e.cfg.sec != 0 || e.cfg.nsec != 0 {
			nd = ft.EmptyDirNodeWithStat(os.FileMode(e.cfg.statMode), mtimeOf(e.cfg.sec, e.cfg.nsec))
		}
		for n, c := range e.oracle {
			nd.AddRawLink(n, &ipld.Link{Cid: poolByID[c].Node.Cid(), Size: poolByID[c].Tsize})
		}
		b, _ := nd.EncodeProtobuf(true)
		return len(b)
	}
	return 0
}

// after runs the C16 monitors that look at one mutating operation.
func (e *Exec) after(op, kindBefore string, before settings) {
	if !e.Rule {
		return
	}
	o := e.o
	kind := e.kindNow()
	if kindBefore != kind {
		o.Kind(kindBefore + "->" + kind)
	}
	// settings survive every conversion (fanout 0/default normalisation excepted)
	now := e.settings()
	if now.thr != before.thr {
		o.Fail("setting-lost-threshold", "%s: per-directory threshold %d -> %d (%s->%s)", op, before.thr, now.thr, kindBefore, kind)
	}
	if now.maxLinks != before.maxLinks {
		o.Fail("setting-lost-maxlinks", "%s: maxLinks %d -> %d (%s->%s)", op, before.maxLinks, now.maxLinks, kindBefore, kind)
	}
	if now.mode != before.mode {
		o.Fail("setting-lost-mode", "%s: estimation mode %d -> %d (%s->%s)", op, before.mode, now.mode, kindBefore, kind)
	}
	nf, bf := now.fanout, before.fanout
	if nf == 0 {
		nf = uio.DefaultShardWidth
	}
	if bf == 0 {
		bf = uio.DefaultShardWidth
	}
	if nf != bf && validWidth(bf) {
		o.Fail("setting-lost-fanout", "%s: fanout %d -> %d (%s->%s)", op, before.fanout, now.fanout, kindBefore, kind)
	}
	nb, bb := now.builder, before.builder
	if nb == "nil" {
		nb = "v0"
	}
	if bb == "nil" {
		bb = "v0"
	}
	if nb != bb {
		o.Fail("setting-lost-builder", "%s: builder %s -> %s", op, before.builder, now.builder)
	}
	// the documented rule (a failed operation changed nothing: nothing new to judge)
	if e.cfg.kind != "dyn" || !e.last.ok {
		return
	}
	thr := e.effThr()
	mode := e.d.GetSizeEstimationMode()
	ml := e.d.GetMaxLinks()
	want := false
	if thr != 0 {
		if mode != uio.SizeEstimationDisabled && e.ruleSize(mode) > thr {
			want = true
		}
		if ml > 0 && len(e.oracle) > ml {
			want = true
		}
	}
	if want || kind != "hamt" {
		e.belowMaxlinks = false
	}
	wasAbove := e.aboveBefore
	e.aboveBefore = want && kind == "basic"
	if want && kind == "basic" && kindBefore == "basic" && !wasAbove {
		// a basic directory that was within the rule grew past it without being sharded
		o.Fail("rule-upgrade-missed", "%s: still basic although the rule now says sharded (size %d thr %d count %d maxlinks %d mode %d)", op, e.ruleSize(mode), thr, len(e.oracle), ml, mode)
	} else if want && kind == "basic" {
		sig := "rule-basic-above"
		// a basic directory at most one index prefix (+ varint steps) over the threshold: the stored-name surplus
		fan := e.d.GetMaxHAMTFanout()
		if !validWidth(fan) {
			fan = uio.DefaultShardWidth
		}
		if ex := e.ruleSize(mode) - thr; mode != uio.SizeEstimationDisabled && !(ml > 0 && len(e.oracle) > ml) && ex <= len(fmt.Sprintf("%X", fan-1))+2 {
			sig = "rule-basic-above-by-prefix"
		}
		o.Fail(sig, "%s: basic although the rule says sharded (size %d thr %d count %d maxlinks %d mode %d)", op, e.ruleSize(mode), thr, len(e.oracle), ml, mode)
	}
	if !want && kind == "hamt" && thr != 0 && kindBefore == "basic" {
		o.Fail("rule-upgrade-early", "%s: sharded by this operation although the rule says basic (size %d thr %d count %d maxlinks %d mode %d)", op, e.ruleSize(mode), thr, len(e.oracle), ml, mode)
	} else if !want && kind == "hamt" && thr != 0 {
		// Which clause kept it sharded?  HAMT->basic needs canSwitchSize && canSwitchMaxLinks.  The known
		// size-gate heuristic can only be the cause in a size-estimating mode, and not when the gate
		// certainly fired and answered "below": sizeChange + delta < 0 already with the exact (bare-name)
		// delta — the code's delta is never larger — and the exact new size is within the threshold
		// (the rule says basic).  Then only the link-count clause can have blocked the conversion.
		sig := "rule-hamt-below"
		if mode == uio.SizeEstimationDisabled || (e.last.haveChg && e.last.chgBefore+e.last.exactOp < 0) {
			sig = "rule-hamt-below-maxlinks"
			e.belowMaxlinks = true
		}
		o.Fail(sig, "%s: sharded although the rule says basic (size %d thr %d count %d maxlinks %d mode %d)", op, e.ruleSize(mode), thr, len(e.oracle), ml, mode)
	}
}

func validWidth(n int) bool { return n > 0 && n&(n-1) == 0 && n&7 == 0 }

// fresh builds the canonical directory of the current entries under the configuration in force
// and compares root CIDs.
func (e *Exec) fresh() {
	o := e.o
	nd, err := e.d.GetNode()
	if err != nil {
		o.Emit("%s", errTok(err))
		return
	}
	c := e.cfg
	// the effective stat of a reloaded directory is what its node carries
	ds2 := mdtest.Mock()
	for i := range Pool {
		ds2.Add(e.ctx, Pool[i].Node)
	}
	if e.table != nil {
		// table hash stays installed
	}
	d2, err := c.build(ds2)
	if err != nil {
		o.Emit("fresh-%s", errTok(err))
		return
	}
	// a reloaded directory carries its builder in the node
	if c.builder == "-" {
		if b := builderTok(e.d.GetCidBuilder()); b == "v1" {
			d2.SetCidBuilder(builderFor("v1"))
		}
	}
	names := make([]string, 0, len(e.oracle))
	for n := range e.oracle {
		names = append(names, n)
	}
	sort.Strings(names)
	for _, n := range names {
		if err := d2.AddChild(e.ctx, n, poolByID[e.oracle[n]].Node); err != nil {
			o.Kind("fresh-" + errTok(err))
			o.Emit("fresh-%s", errTok(err))
			return
		}
	}
	nd2, err := d2.GetNode()
	if err != nil {
		o.Emit("fresh-%s", errTok(err))
		return
	}
	k1 := e.kindNow()
	s2 := uio.VerifDirsState(e.ctx, d2)
	k2 := s2[:strings.IndexByte(s2, ' ')]
	if len(names) >= 2 {
		o.Nontrivial()
	}
	if nd.Cid().Equals(nd2.Cid()) {
		o.Kind("fresh-same-" + k1)
		o.Emit("same")
		return
	}
	o.Kind("fresh-diff")
	sig := "cid-same-kind-" + k1
	if k1 != k2 {
		sig = "cid-history-" + k1 + "-fresh-" + k2
		if k1 == "hamt" && e.belowMaxlinks {
			sig += "-maxlinks"
		}
	}
	o.Fail(sig, "root CID %s differs from the fresh build %s of the same %d entries", nd.Cid(), nd2.Cid(), len(names))
	o.Emit("diff")
}

// ------------------------------------------------------------------ serialized DAG dump

// DumpDag renders what GetNode() serialised, recursively:
//
//	dir{mode/sec/nsec}[name=cid/size,...]                        basic directory (links in encoded order)
//	shard<fanout>{mode/sec/nsec}(i,j,..)[PFX:name=cid/size PFX:[...]]   HAMT node: set bits, then links
func DumpDag(ctx context.Context, dserv ipld.DAGService, nd ipld.Node) string {
	var sb strings.Builder
	dumpDag(ctx, dserv, nd, &sb)
	return sb.String()
}

func dumpDag(ctx context.Context, dserv ipld.DAGService, nd ipld.Node, sb *strings.Builder) {
	pn, ok := nd.(*mdag.ProtoNode)
	if !ok {
		sb.WriteString("!notpb")
		return
	}
	fsn, err := ft.FSNodeFromBytes(pn.Data())
	if err != nil {
		sb.WriteString("!baddata")
		return
	}
	sec, nsec := int64(0), 0
	if mt := fsn.ModTime(); !mt.IsZero() {
		sec, nsec = mt.Unix(), mt.Nanosecond()
	}
	stat := fmt.Sprintf("{%o/%d/%d}", files.ModePermsToUnixPerms(fsn.Mode()), sec, nsec)
	switch fsn.Type() {
	case ft.TDirectory:
		sb.WriteString("dir" + stat + "[")
		for i, l := range pn.Links() {
			if i > 0 {
				sb.WriteByte(',')
			}
			fmt.Fprintf(sb, "%s=%s/%d", vh.Hex([]byte(l.Name)), l.Cid, l.Size)
		}
		sb.WriteByte(']')
	case ft.THAMTShard:
		fan := int(fsn.Fanout())
		fmt.Fprintf(sb, "shard%d%s(", fan, stat)
		bf := fsn.Data()
		first := true
		for i := 0; i < fan; i++ {
			byteIdx := len(bf) - 1 - i/8
			if byteIdx >= 0 && bf[byteIdx]&(1<<uint(i%8)) != 0 {
				if !first {
					sb.WriteByte(',')
				}
				first = false
				sb.WriteString(strconv.Itoa(i))
			}
		}
		sb.WriteString(")[")
		pad := len(fmt.Sprintf("%X", fan-1))
		for i, l := range pn.Links() {
			if i > 0 {
				sb.WriteByte(' ')
			}
			if len(l.Name) < pad {
				sb.WriteString("!shortname")
				continue
			}
			sb.WriteString(l.Name[:pad] + ":")
			if len(l.Name) == pad {
				ch, err := l.GetNode(ctx, dserv)
				if err != nil {
					sb.WriteString("!missing")
					continue
				}
				dumpDag(ctx, dserv, ch, sb)
			} else {
				fmt.Fprintf(sb, "%s=%s/%d", vh.Hex([]byte(l.Name[pad:])), l.Cid, l.Size)
			}
		}
		sb.WriteByte(']')
	default:
		sb.WriteString("!type")
	}
}

var _ = binary.BigEndian

// checkDigitPaths is the monitor of the bit-extraction clause, evaluated directly on what was
// serialised: every entry of a HAMT sits under the slot indices obtained by splitting the
// big-endian bit string of its hash into log2(fanout)-bit groups.
func (e *Exec) checkDigitPaths(nd ipld.Node, path []int) {
	pn, ok := nd.(*mdag.ProtoNode)
	if !ok {
		return
	}
	fsn, err := ft.FSNodeFromBytes(pn.Data())
	if err != nil || fsn.Type() != ft.THAMTShard {
		return
	}
	fan := int(fsn.Fanout())
	lg := 0
	for 1<<uint(lg) < fan {
		lg++
	}
	pad := len(fmt.Sprintf("%X", fan-1))
	for _, l := range pn.Links() {
		if len(l.Name) < pad {
			continue
		}
		idx, perr := strconv.ParseUint(l.Name[:pad], 16, 32)
		if perr != nil {
			e.o.Fail("digit-path", "link name %q has no hex index prefix", l.Name)
			continue
		}
		p := append(append([]int(nil), path...), int(idx))
		if len(l.Name) == pad {
			if ch, err := l.GetNode(e.ctx, e.plainDS()); err == nil {
				e.checkDigitPaths(ch, p)
			}
			continue
		}
		name := l.Name[pad:]
		var hv []byte
		if e.table != nil {
			hv = e.table[name]
		} else {
			hv = Murmur(name)
		}
		// big-endian bit string split into lg-bit groups
		var acc uint64
		for _, b := range hv {
			acc = acc<<8 | uint64(b)
		}
		nbits := len(hv) * 8
		for lvl, want := range p {
			if (lvl+1)*lg > nbits {
				e.o.Fail("digit-path", "entry %q stored deeper than its hash has digits", name)
				break
			}
			d := int(acc >> uint(nbits-(lvl+1)*lg) & (1<<uint(lg) - 1))
			if d != want {
				e.o.Fail("digit-path", "entry %q at level %d sits in slot %d, its hash digit is %d", name, lvl, want, d)
				break
			}
		}
	}
}

// ------------------------------------------------------------------ fault injection

var errFault = errors.New("dirx: injected DAG service fault")

// faultDS refuses one block (a sub-shard of a reloaded HAMT): Get and GetMany report errFault for it.
type faultDS struct {
	ipld.DAGService
	bad cid.Cid
}

func (e *Exec) faultActive() bool { return e.fault != nil && e.fault.bad.Defined() }

func (f *faultDS) Get(ctx context.Context, c cid.Cid) (ipld.Node, error) {
	if f.bad.Defined() && c.Equals(f.bad) {
		return nil, errFault
	}
	return f.DAGService.Get(ctx, c)
}

func (f *faultDS) GetMany(ctx context.Context, cs []cid.Cid) <-chan *ipld.NodeOption {
	out := make(chan *ipld.NodeOption, len(cs))
	go func() {
		defer close(out)
		for _, c := range cs {
			nd, err := f.Get(ctx, c)
			select {
			case out <- &ipld.NodeOption{Node: nd, Err: err}:
			case <-ctx.Done():
				return
			}
		}
	}()
	return out
}

func (e *Exec) plainDS() ipld.DAGService { return e.plain }

// collectSubShards lists the sub-shard links of a serialised HAMT in DFS pre-order with their
// slot-index paths ("3.5").
func collectSubShards(ctx context.Context, dserv ipld.DAGService, nd ipld.Node, prefix string, subs *[]cid.Cid, paths *[]string) {
	pn, ok := nd.(*mdag.ProtoNode)
	if !ok {
		return
	}
	fsn, err := ft.FSNodeFromBytes(pn.Data())
	if err != nil || fsn.Type() != ft.THAMTShard {
		return
	}
	pad := len(fmt.Sprintf("%X", int(fsn.Fanout())-1))
	for _, l := range pn.Links() {
		if len(l.Name) != pad {
			continue
		}
		idx, perr := strconv.ParseUint(l.Name, 16, 32)
		if perr != nil {
			continue
		}
		p := strconv.Itoa(int(idx))
		if prefix != "" {
			p = prefix + "." + p
		}
		*subs = append(*subs, l.Cid)
		*paths = append(*paths, p)
		if ch, err := l.GetNode(ctx, dserv); err == nil {
			collectSubShards(ctx, dserv, ch, p, subs, paths)
		}
	}
}
