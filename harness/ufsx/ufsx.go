// Package ufsx holds what the C07 / C08 / C10 harnesses share: a scripted splitter, the canonical DAG dump
// (same format as lean/BoxoModel/C07/Dump.lean) and the size-consistency walk used by the monitors.
package ufsx

import (
	"bytes"
	"context"
	"fmt"
	"io"
	"strconv"
	"strings"
	"time"

	"github.com/ipfs/boxo/files"
	dag "github.com/ipfs/boxo/ipld/merkledag"
	ft "github.com/ipfs/boxo/ipld/unixfs"
	pb "github.com/ipfs/boxo/ipld/unixfs/pb"
	ipld "github.com/ipfs/go-ipld-format"

	"verifharness/vh"
)

// Scripted is a chunker.Splitter that returns the given chunks one by one, then io.EOF.
type Scripted struct {
	Chunks [][]byte
	i      int
}

func (s *Scripted) Reader() io.Reader { return bytes.NewReader(nil) }
func (s *Scripted) NextBytes() ([]byte, error) {
	if s.i >= len(s.Chunks) {
		return nil, io.EOF
	}
	c := s.Chunks[s.i]
	s.i++
	return c, nil
}

func ShowTime(t time.Time) string {
	if t.IsZero() {
		return "-"
	}
	return fmt.Sprintf("%d.%d", t.Unix(), t.Nanosecond())
}

// Walk dumps a DAG and gathers what the monitors need.
type Walk struct {
	DS         ipld.DAGService
	SB         strings.Builder
	LeafDepths map[int]bool
	MaxKids    int
	SizesOK    bool
	SizesMsg   string
	Height     int
	// RootTime, when non-nil, replaces the root's mtime in the dump (canonicalisation of time.Now())
	RootTime *time.Time
	// RootTimeLabel, when non-nil, maps the root's mtime to the label printed in the dump (C10: original | "R")
	RootTimeLabel func(time.Time) string
	// CanonLeaf prints every dag-pb node without links as type "L" (C10: File- and Raw-typed leaves mix)
	CanonLeaf bool
}

func NewWalk(ds ipld.DAGService) *Walk {
	return &Walk{DS: ds, LeafDepths: map[int]bool{}, SizesOK: true}
}

func (wk *Walk) bad(format string, a ...any) {
	if wk.SizesOK {
		wk.SizesOK, wk.SizesMsg = false, fmt.Sprintf(format, a...)
	}
}

// Dump writes the canonical dump of n and returns (size of n as recorded by n itself, content of the leaves).
func (wk *Walk) Dump(n ipld.Node, depth int) (uint64, []byte) {
	if depth > wk.Height {
		wk.Height = depth
	}
	switch nd := n.(type) {
	case *dag.RawNode:
		fmt.Fprintf(&wk.SB, "R(%s)", vh.Hex(nd.RawData()))
		wk.LeafDepths[depth] = true
		return uint64(len(nd.RawData())), nd.RawData()
	case *dag.ProtoNode:
		fsn, err := ft.FSNodeFromBytes(nd.Data())
		if err != nil {
			panic("not unixfs: " + err.Error())
		}
		ty := "?"
		switch fsn.Type() {
		case pb.Data_File:
			ty = "F"
		case pb.Data_Raw:
			ty = "W"
		}
		if wk.CanonLeaf && len(nd.Links()) == 0 {
			ty = "L"
		}
		bss := make([]string, len(fsn.BlockSizes()))
		for i, b := range fsn.BlockSizes() {
			bss[i] = strconv.FormatUint(b, 10)
		}
		data := "-"
		if len(nd.Links()) == 0 {
			data = vh.Hex(fsn.Data())
		} else if len(fsn.Data()) > 0 {
			data = "!" + vh.Hex(fsn.Data())
		}
		mt := fsn.ModTime()
		if depth == 0 && wk.RootTime != nil {
			mt = *wk.RootTime
		}
		mts := ShowTime(mt)
		if depth == 0 && wk.RootTimeLabel != nil {
			mts = wk.RootTimeLabel(mt)
		}
		fmt.Fprintf(&wk.SB, "P(%s;%d;%s;%s;%d;%s)", ty, fsn.FileSize(), data, strings.Join(bss, ","),
			files.ModePermsToUnixPerms(fsn.Mode()), mts)
		if len(nd.Links()) == 0 {
			wk.LeafDepths[depth] = true
			if fsn.FileSize() != uint64(len(fsn.Data())) {
				wk.bad("leaf filesize %d != len(data) %d", fsn.FileSize(), len(fsn.Data()))
			}
			return fsn.FileSize(), fsn.Data()
		}
		if len(nd.Links()) > wk.MaxKids {
			wk.MaxKids = len(nd.Links())
		}
		if len(nd.Links()) != len(fsn.BlockSizes()) {
			wk.bad("%d links but %d blocksizes", len(nd.Links()), len(fsn.BlockSizes()))
		}
		if len(fsn.Data()) > 0 {
			wk.bad("internal node carries %d data bytes (invisible to DagReader)", len(fsn.Data()))
		}
		wk.SB.WriteString("[")
		var content []byte
		var sum uint64
		for i, l := range nd.Links() {
			c, err := l.GetNode(context.Background(), wk.DS)
			if err != nil {
				panic("missing child: " + err.Error())
			}
			rec, cc := wk.Dump(c, depth+1)
			if i < len(fsn.BlockSizes()) {
				sum += fsn.BlockSize(i)
				if fsn.BlockSize(i) != rec || rec != uint64(len(cc)) {
					wk.bad("blocksize[%d]=%d child size=%d child content=%d", i, fsn.BlockSize(i), rec, len(cc))
				}
			}
			content = append(content, cc...)
		}
		wk.SB.WriteString("]")
		if sum != fsn.FileSize() {
			wk.bad("filesize %d != sum of blocksizes %d", fsn.FileSize(), sum)
		}
		return fsn.FileSize(), content
	}
	panic("unexpected node type")
}

// RootAttrs returns (unix perms, mtime, isRaw) of a file root.
func RootAttrs(n ipld.Node) (uint32, time.Time, bool) {
	switch nd := n.(type) {
	case *dag.ProtoNode:
		fsn, err := ft.FSNodeFromBytes(nd.Data())
		if err != nil {
			return 0, time.Time{}, false
		}
		return files.ModePermsToUnixPerms(fsn.Mode()), fsn.ModTime(), false
	}
	return 0, time.Time{}, true
}

// Chunks decodes hex tokens.
func Chunks(toks []string) [][]byte {
	cs := make([][]byte, len(toks))
	for i, t := range toks {
		cs[i] = vh.UnHex(t)
	}
	return cs
}

func Concat(cs [][]byte) []byte {
	var all []byte
	for _, c := range cs {
		all = append(all, c...)
	}
	return all
}

func HexChunks(cs [][]byte) string {
	ss := make([]string, len(cs))
	for i, c := range cs {
		ss[i] = vh.Hex(c)
	}
	return strings.Join(ss, " ")
}
