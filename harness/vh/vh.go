// Package vh is the shared part of the correspondence harness: deterministic PRNG, the
// line protocol (cases of op lines), and the gen/exec entry point used by every cmd/cNN.
//
// Protocol (see /verif/docs/HOWTO.md):
//
//	gen  --seed S --tier T --n N   writes op lines to stdout: "case <id>", ops..., "end"
//	exec                            reads op lines from stdin, runs each case against the real
//	                                code, writes exactly one output line per op line, plus
//	                                '#'-prefixed side-channel lines that are never diffed:
//	                                  #monitor FAIL sig=<token> <detail>   property predicate failed
//	                                  #meta nontrivial=<0|1> kinds=<a,b,..>  generator statistics
//	                                  #panic <msg> / #timeout               case aborted
package vh

import (
	"bufio"
	"flag"
	"fmt"
	"os"
	"runtime/debug"
	"sort"
	"strconv"
	"strings"
	"sync"
	"time"
)

// Rand is splitmix64; every random choice of a run derives from one seed.
type Rand struct{ s uint64 }

// NewRand mixes the seed through the splitmix64 finalizer twice so that consecutive seeds give
// unrelated streams (a plain `seed*G + c` start makes seed s+1 the stream of seed s shifted by one draw).
func NewRand(seed uint64) *Rand {
	r := &Rand{s: seed ^ 0x5DEECE66D1234567}
	a := r.U64()
	b := r.U64()
	return &Rand{s: a ^ (b << 1) ^ seed}
}

func (r *Rand) U64() uint64 {
	r.s += 0x9E3779B97F4A7C15
	z := r.s
	z = (z ^ (z >> 30)) * 0xBF58476D1CE4E5B9
	z = (z ^ (z >> 27)) * 0x94D049BB133111EB
	return z ^ (z >> 31)
}

// Intn returns a value in [0,n).
func (r *Rand) Intn(n int) int {
	if n <= 0 {
		return 0
	}
	return int(r.U64() % uint64(n))
}

// Range returns a value in [lo,hi].
func (r *Rand) Range(lo, hi int) int { return lo + r.Intn(hi-lo+1) }
func (r *Rand) Bool() bool           { return r.U64()&1 == 1 }

// Chance is true with probability num/den.
func (r *Rand) Chance(num, den int) bool { return r.Intn(den) < num }
func (r *Rand) Bytes(n int) []byte {
	b := make([]byte, n)
	for i := range b {
		b[i] = byte(r.U64())
	}
	return b
}
func Pick[T any](r *Rand, xs []T) T { return xs[r.Intn(len(xs))] }

// Fork derives an independent stream (so that adding draws in one case does not shift others).
func (r *Rand) Fork() *Rand { return &Rand{s: r.U64()} }

// W writes protocol lines.
type W struct{ w *bufio.Writer }

func (w *W) Line(format string, a ...any) {
	s := fmt.Sprintf(format, a...)
	if strings.ContainsAny(s, "\n\r") {
		panic("vh: newline inside protocol line: " + strconv.Quote(s))
	}
	w.w.WriteString(s)
	w.w.WriteByte('\n')
}
func (w *W) Flush() { w.w.Flush() }

// Case is one generated case: its id and its op lines (without the case/end framing).
type Case struct {
	ID  string
	Ops []string
}

// Out collects exec output for one case.
type Out struct {
	w        *W
	kinds    map[string]bool
	nontriv  bool
	monitors int
}

// Emit writes the output line for the current op.
func (o *Out) Emit(format string, a ...any) { o.w.Line(format, a...); o.w.Flush() }

// Fail reports a property-predicate failure found by the monitor (never diffed with the model).
func (o *Out) Fail(sig string, format string, a ...any) {
	o.monitors++
	failMu.Lock()
	failCount[sig]++
	failMu.Unlock()
	o.w.Line("#monitor FAIL sig=%s %s", sig, fmt.Sprintf(format, a...))
	o.w.Flush()
}

// Kind records a branch / op kind / error kind reached (goes to the evidence histogram).
func (o *Out) Kind(k string) { o.kinds[k] = true }

// Nontrivial marks the case as non-trivial by the property's stated rule.
func (o *Out) Nontrivial() { o.nontriv = true }

type Config struct {
	// Gen writes n cases (use w.Case). tier is "quick" or "thorough".
	Gen func(r *Rand, tier string, n int, emit func(Case))
	// Exec runs one case against the real code; it must Emit exactly one line per op.
	Exec func(c Case, o *Out)
	// CaseTimeout aborts the process when a single case runs longer (default 30s).
	CaseTimeout time.Duration
	// GiveUpAfter: once the monitor signature has failed this many times in one process, the remaining cases are
	// answered "#skipped" instead of being run (for failures that cost a wall-clock timeout each, e.g. a hang:
	// the violation is already reported that many times; the check's driver does not judge skipped cases).
	GiveUpAfter map[string]int
}

var (
	failMu    sync.Mutex
	failCount = map[string]int{}
)

func Main(cfg Config) {
	if len(os.Args) < 2 {
		fmt.Fprintln(os.Stderr, "usage: gen|exec")
		os.Exit(2)
	}
	switch os.Args[1] {
	case "gen":
		fs := flag.NewFlagSet("gen", flag.ExitOnError)
		seed := fs.Uint64("seed", 1, "")
		tier := fs.String("tier", "quick", "")
		n := fs.Int("n", 100, "")
		fs.Parse(os.Args[2:])
		w := &W{w: bufio.NewWriterSize(os.Stdout, 1<<20)}
		r := NewRand(*seed)
		cfg.Gen(r, *tier, *n, func(c Case) {
			w.Line("case %s", c.ID)
			for _, op := range c.Ops {
				w.Line("%s", op)
			}
			w.Line("end")
		})
		w.Flush()
	case "exec":
		runExec(cfg)
	default:
		fmt.Fprintln(os.Stderr, "usage: gen|exec")
		os.Exit(2)
	}
}

func runExec(cfg Config) {
	to := cfg.CaseTimeout
	if to == 0 {
		to = 30 * time.Second
	}
	in := bufio.NewScanner(os.Stdin)
	in.Buffer(make([]byte, 1<<20), 1<<28)
	w := &W{w: bufio.NewWriterSize(os.Stdout, 1<<16)}
	var cur *Case
	for in.Scan() {
		line := in.Text()
		f := strings.Fields(line)
		switch {
		case len(f) == 2 && f[0] == "case":
			cur = &Case{ID: f[1]}
		case len(f) == 1 && f[0] == "end" && cur != nil:
			skip := false
			for sig, n := range cfg.GiveUpAfter {
				failMu.Lock()
				if n > 0 && failCount[sig] >= n {
					skip = true
				}
				failMu.Unlock()
			}
			if skip {
				w.Line("case %s", cur.ID)
				w.Line("#skipped")
				w.Line("end")
			} else {
				runCase(cfg, *cur, w, to)
			}
			cur = nil
		default:
			if cur != nil {
				cur.Ops = append(cur.Ops, line)
			}
		}
	}
	w.Flush()
}

func runCase(cfg Config, c Case, w *W, to time.Duration) {
	w.Line("case %s", c.ID)
	w.Flush()
	o := &Out{w: w, kinds: map[string]bool{}}
	done := make(chan struct{})
	go func() {
		defer close(done)
		defer func() {
			if r := recover(); r != nil {
				st := strings.ReplaceAll(string(debug.Stack()), "\n", " | ")
				if len(st) > 1500 {
					st = st[:1500]
				}
				w.Line("#panic %s", strings.ReplaceAll(fmt.Sprint(r), "\n", " "))
				w.Line("#stack %s", st)
				w.Flush()
			}
		}()
		cfg.Exec(c, o)
	}()
	select {
	case <-done:
	case <-time.After(to):
		w.Line("#timeout case %s after %s", c.ID, to)
		w.Flush()
		os.Exit(3)
	}
	ks := make([]string, 0, len(o.kinds))
	for k := range o.kinds {
		ks = append(ks, k)
	}
	sort.Strings(ks)
	nt := 0
	if o.nontriv {
		nt = 1
	}
	w.Line("#meta nontrivial=%d kinds=%s", nt, strings.Join(ks, ","))
	w.Line("end")
	w.Flush()
}

// Hex helpers for byte operands.
func Hex(b []byte) string {
	if len(b) == 0 {
		return "-"
	}
	return fmt.Sprintf("%x", b)
}
func UnHex(s string) []byte {
	if s == "-" {
		return []byte{}
	}
	b := make([]byte, len(s)/2)
	for i := range b {
		v, err := strconv.ParseUint(s[2*i:2*i+2], 16, 8)
		if err != nil {
			panic("vh: bad hex " + s)
		}
		b[i] = byte(v)
	}
	return b
}
func Atoi(s string) int {
	v, err := strconv.Atoi(s)
	if err != nil {
		panic("vh: bad int " + s)
	}
	return v
}
